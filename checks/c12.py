"""C12 - Points and Space behave as a table with named column groups.

A case is a *history*: an initial Points object plus a list of op dicts that is interpreted
against a plain model (ordered name list + dict name -> ndarray of shape batch+(dim,)).
Every op reads earlier objects by index modulo pool size and appends its result to the pool;
pool objects are never mutated afterwards (setitem works on a clone), so views returned by the
library cannot couple the two worlds.  After every step the library result must agree with the
model bit for bit (space: names, order, dims; tensor: shape, dtype, bytes).

Steps that produce a new Points (getitem, join, joined, |, repeat, unsqueeze, arithmetic) may
carry a "probe": {"idx", "fill"}: the step is then executed on PRIVATE copies of its operands,
and the fresh result r is written to in place, r[idx] = v (idx addresses one row / block / a few
rows of r).  Afterwards the whole of r must equal the model (only the addressed rows x columns
changed - rows of a result are independent table rows) and, for the operations where the
unmodified library builds the result in fresh memory (repeat, join and | of two non-empty
operands, joined, arithmetic), every operand must still hold its values.  For unsqueeze and
indexing (torch views on the clean tree) only the result is compared.  The repeat step can
first reduce its operand to a single row ("pre": "row") or put a length-one axis in front with
the library's unsqueeze(0) ("pre": "unsq0"), and can restrict the repetition to the batch axes
of length one ("only1").

The op "life" follows ONE mutable Points object (a private copy of a pool object) through several
calls: steps {"do": "coords" | "repr" | "track" | "get" | "set" | "to", "look": bits}.  "to" is
Points.to(...) - the in-place conversion of the underlying tensor - in the spellings to(dtype),
to(dtype=..), to('cpu', dtype), to(device=.., dtype=..), to(other_tensor), to(dtype, copy=True),
to('cpu'); "dtype": "flip" changes float32 <-> float64 (a really new tensor), "same" keeps it (a
no-op except with copy=True).  "set" assigns IN PLACE to the object itself.  After every step the
observers selected by "look" (1: as_tensor/space/derived attributes, 2: .coordinates, 4: p[..., name]
for every variable) and after the last step all of them must describe the same table, the model
(model of to(): numpy astype, IEEE round-to-nearest like torch).  Violations are named
<observer>-after-<last call that changed the object: new | to | setitem>.  With "keep" the object is
converted back to the dtype of the case and joins the pool as operand of later steps.

Index expressions are JSON: {"form", "items", "k", "kp", "sel", "bits"} with tagged items
  {"t":"int","v":..} {"t":"slice","a","b","s"} {"t":"mask","bits":[..],"as":"torch|numpy"}
  {"t":"idx","v":[..],"as":"torch|numpy|list"}
and selectors (positions into the object's ordered name list, modulo its length)
  {"t":"name","pos":p} {"t":"names","pos":[..],"as":"tuple|list"}
  {"t":"nslice","a":p|None,"b":p|None[,"s":step]}   ('x':'t', :'t', 'u'::-1, ::-1, :'x':-2, ::2)
They are normalised against the shape of the object they are applied to at run time, so every
generated expression is valid for its target (see `decode_index`).

Accepted grammar (docstring of Points.__getitem__, tests/test_points.py, and every use inside
src/torchphysics):
  bare       p[i]  p[a:b:s]  p[mask]  p[index tensor / ndarray]  p[...]
  batch      p[b1,] ... p[b1,..,bk]  (k <= number of batch axes; bi = int | slice | 1-D mask |
             index tensor | ndarray | list), p[...,]
  full       p[b1,..,b_nb, SEL]
  ellipsis   p[b.., ..., b.., SEL]
  SEL        'x' | ('x','t') | ['t','x'] | 'x':'t' | : | 'x':'t':s  (name slice with step s,
             also negative and with omitted bounds: Space.__getitem__ hands start/stop/step to
             list slicing of the ordered names; oracle = python slicing of the name list)
NOT generated (outside the grammar; the library rejects or re-interprets them): a bare list
p[[0,2]] (every library/test use writes p[[0,2],]), integers / masks on the column axis, a
trailing `...` behind other entries, negative slice steps on BATCH axes (torch rejects them),
name slices that select no variable, a name selector without `...` when
fewer entries than axes are given, several boolean masks in one expression.
"""
import numpy as np
import torch
from hypothesis import strategies as st

from torchphysics.problem.spaces import Points, Space
from vf import core

PROPERTY = "C12"
RULE = ("Hypothesis draws a history: an initial Points (1-5 variables of dim 1-4 from a pool of 7 "
        "names, 1-3 batch axes of length 1-4, float32/float64, built through the constructor "
        "from tensor/ndarray/list or through from_coordinates) and 1-14 (every 4th case 15-30) "
        "op dicts: new, coordinates(+round trip), getitem, setitem, slice/selection "
        "commutation, join (either side, with empty, overlapping names rejected), 3-way join "
        "associativity, joined (with empties at any position), | (fresh/self/empty/other space "
        "rejected), repeat, unsqueeze, + - * / **, == (copy / reordered space / renamed / "
        "perturbed cell / other object), track_coord_gradients, iteration, life (1-8 calls on ONE "
        "object: coordinates / repr / track_coord_gradients / getitem reads, Points.to in 7 "
        "spellings - 3 of 4 with a real float32<->float64 change, else same dtype with or without "
        "copy=True - and in-place assignments; after each call a drawn subset of the observers "
        "as_tensor+attributes / coordinates / selection of each variable by name, at the end all "
        "of them, must equal the model; half of the lives are converted back and kept as pool "
        "object), and Space product / "
        "containment / indexing / dim / equality. Index expressions are drawn from the "
        "documented grammar only and normalised to the target's shape; name slices (column "
        "selector of Points and Space[...]) carry a step in about half of the draws (-1,-2,-3,2,1; "
        "negative steps with omitted start and/or stop over-weighted), oracle = python slicing "
        "of the ordered name list. repeat is drawn with 1-3 counts of 1-3 on operands whose "
        "batch axes have length 1-4, optionally on a single row of the operand, on "
        "operand.unsqueeze(0) (batch (1,n,..)) or only along the length-one axes. About half of "
        "the getitem(1/4)/join/joined/|/repeat(2/3)/unsqueeze/arithmetic(1/4) steps are followed "
        "by an in-place write r[idx] = v into one row/block (int, short slice, 1-2 indices, mask "
        "on batch axis 0, optionally further axes and a name selector) of the fresh result r: "
        "afterwards r must equal the model (only the addressed block changed) and - for repeat, "
        "join, joined, |, arithmetic, where the clean library builds fresh memory - the "
        "(private copies of the) operands must be unchanged. Oracle: bitwise model "
        "agreement after every step plus the algebraic relations; inputs must stay unchanged. "
        "Non-trivial: some step selected >=2 variables in an order different from storage "
        "order, or operated on an object with >=2 batch axes, or >=3 ops were executed; "
        "distinct = spec hash. Half of the cases carry avoid_known=true: index expressions "
        "that fall into the regions of the known findings D23 / C12-N1 are rewritten to an "
        "equivalent accepted form (counted as excluded-known:*). extra_cases sweeps a fixed list of ~70 index expressions over "
        "objects with 1, 2 and 3 batch axes for getitem, setitem and commutation, 12 stepped "
        "name slices (all open/closed bound combinations, steps -1,-2,-3,2,1) for Space[...], "
        "getitem, setitem and commutation, and repeat (x single row / unsqueeze(0) / as is, "
        "x counts (1),(k),(k,1,2)) plus every other result-producing operation followed by six "
        "fixed probe writes on batches (1),(4),(1,3),(3,1),(2,1,2), and 17 pinned lives (read - "
        "to - read - assign - read for every spelling of to; read only through repr / track / "
        "the final observers; copy=True with unchanged dtype; no read before the conversion; no-op "
        "conversions; there-and-back with assignments in both precisions; kept objects used by "
        "later coords/track/iter/eq/get/commute/life steps) on float32 and float64 objects with "
        "batches (3),(2,3),(3,1,2).")
ASSUMPTIONS = [
    "index grammar = forms shown in the Points docstring, tests/test_points.py and used inside "
    "src/torchphysics; bare list indices, trailing Ellipsis, negative steps on batch axes, "
    "column integers are not generated; name slices with a step (documented argument type "
    "'slice', handed to list slicing by Space.__getitem__) are generated, empty name selections "
    "are not",
    "where numpy and torch differ (integer and array index separated by a slice) the model "
    "follows torch: integers select first",
    "+ - * / compared bitwise against numpy IEEE arithmetic of the same dtype; ** compared with "
    "1e-12 (float64) / 1e-5 (float32) relative tolerance because pow is not correctly rounded",
    "setitem index arrays are de-duplicated (assignment order with duplicates is unspecified)",
    "Space containment is only asked for candidates whose shared names have equal dimensions",
    "Points.to(*args) forwards to torch.Tensor.to, rebinds the tensor of the SAME object and "
    "returns a Points (callers write p = p.to(..)); the check continues with the returned object. "
    "Only CPU conversions are generated (dtype float32<->float64, copy=True, device 'cpu'); "
    "Points.cuda and other devices are not exercised. float64->float32 is modelled by numpy "
    "astype (IEEE round to nearest even, identical to torch); objects with non-finite cells get "
    "no life",
    "after any sequence of reads, to() and assignments on one object, as_tensor, .coordinates "
    "(dtype, shape, bytes) and p[..., name] describe the same table (property: observe as_tensor / "
    ".coordinates / .space after each operation); whether coordinates are views or require grad "
    "is not asserted",
    "pool objects are never mutated, setitem is applied to a clone (only the private object of a "
    "life step is assigned to in place, and it enters the pool after its last call); whether a result aliases its "
    "operand is only asserted (through a follow-up write into the result, on private operand "
    "copies) for repeat, join/| of two non-empty operands, joined and arithmetic, where the "
    "unmodified library allocates the result; for unsqueeze/indexing (torch views) only 'a "
    "write into one block of the result changes exactly that block of the result' is asserted",
]
BUDGET = {"quick": {"examples": 600, "workers": 4},
          "thorough": {"examples": 6000, "workers": 14}}

NAMES = ["x", "t", "u", "y", "D", "k", "w"]
MULTS = [1.0, -1.0, 0.5, 3.0]
MAX_CELLS = 6000
MAX_BATCH_AXES = 4
MAX_VARS = 9
VIAS = ["tensor", "numpy", "list", "coords", "coords-numpy"]


# ======================================================================================
# model
# ======================================================================================
class M:
    """Plain table: ordered names, name -> ndarray(batch + (dim,)), batch shape."""
    __slots__ = ("names", "cols", "batch")

    def __init__(self, names, cols, batch):
        self.names = list(names)
        self.cols = cols
        self.batch = tuple(int(b) for b in batch)

    @property
    def dims(self):
        return [int(self.cols[n].shape[-1]) for n in self.names]

    @property
    def dim(self):
        return sum(self.dims)

    @property
    def nb(self):
        return len(self.batch)

    @property
    def rows(self):
        return int(np.prod(self.batch)) if self.batch else 1

    def space_items(self):
        return [(n, int(self.cols[n].shape[-1])) for n in self.names]

    def table(self, dtype):
        if not self.names:
            return np.zeros(self.batch + (0,), dtype=dtype)
        return np.ascontiguousarray(np.concatenate([self.cols[n] for n in self.names], axis=-1))

    def is_empty(self):
        return not self.names and self.rows == 0

    def same_space(self, other):
        return self.space_items() == other.space_items()


def empty_model():
    return M([], {}, (0,))


def fill_values(n, fill, dtype, kind="any"):
    a, b = int(fill[0]), int(fill[1])
    k = np.arange(n, dtype=np.float64)
    if kind == "nonzero":
        v = (k + 1 + abs(b)) * MULTS[a % 4]
    elif kind == "exponent":
        v = (k + abs(b)) % 3
    else:
        v = (k + 10 * b) * MULTS[a % 4]
    return v.astype(dtype)


def fresh_model(varlist, batch, fill, dtype, kind="any"):
    names = [v[0] for v in varlist]
    dims = [int(v[1]) for v in varlist]
    batch = tuple(int(b) for b in batch)
    d = sum(dims)
    n = int(np.prod(batch)) * d
    tab = fill_values(n, fill, dtype, kind).reshape(batch + (d,))
    cols, off = {}, 0
    for nm, dm in zip(names, dims):
        cols[nm] = np.ascontiguousarray(tab[..., off:off + dm])
        off += dm
    return M(names, cols, batch)


def model_from_table(names, dims, tab):
    cols, off = {}, 0
    for nm, dm in zip(names, dims):
        cols[nm] = np.ascontiguousarray(tab[..., off:off + dm])
        off += dm
    return M(names, cols, tab.shape[:-1])


def merge_spaces(a_items, b_items):
    """Ordered Counter addition: names of a first, equal names add their dimensions."""
    out = [[n, d] for n, d in a_items]
    pos = {n: i for i, (n, d) in enumerate(a_items)}
    for n, d in b_items:
        if n in pos:
            out[pos[n]][1] += d
        else:
            pos[n] = len(out)
            out.append([n, d])
    return [(n, d) for n, d in out]


def dedupe_vars(varlist):
    seen, out = set(), []
    for n, d in varlist:
        if n not in seen:
            seen.add(n)
            out.append((str(n), int(d)))
    return out


def make_space(items):
    d = {}
    for n, dm in items:
        d[n] = dm
    return Space(d)


# ======================================================================================
# state / helpers
# ======================================================================================
class State:
    def __init__(self, ctx, dtype):
        self.ctx = ctx
        self.dtype = np.dtype(dtype)
        self.tdtype = torch.float64 if self.dtype == np.float64 else torch.float32
        self.pool = []
        self.classes = set()
        self.executed = 0
        self.skipped = 0
        self.perm_select = False
        self.multibatch = False
        self.known_region = 0
        self.excluded = 0
        self.avoid = False

    def cls(self, c):
        self.classes.add(c)


FAILED = object()


def lib_call(S, label, feature, f):
    """Library call that must return; a crash is reported and the history continues."""
    try:
        with S.ctx.lib(label, feature=feature):
            return f()
    except core.CaseAborted:
        return FAILED


def must_reject(S, feature, what, f):
    """Contract 'rejected': any exception is a pass, a returned value is the violation."""
    try:
        f()
    except Exception:   # noqa: BLE001 - rejection is the contract
        return True
    S.ctx.violation("accepted", feature, what)
    return False


def build_real(S, m, via="tensor"):
    """Operand construction by the harness: a library exception here is a crash of the
    constructor / from_coordinates (already exercised by op_new) and ends the case."""
    with S.ctx.lib(f"construct operand {m.space_items()} batch {m.batch} via {via}",
                   feature="operand-construction"):
        return _build_real(S, m, via)


def mk_points(S, data, items):
    with S.ctx.lib(f"Points(data{tuple(data.shape)}, Space({items}))", feature="operand-construction"):
        return Points(data, make_space(items))


def _build_real(S, m, via="tensor"):
    if not m.names:
        return Points.empty()
    if via in ("coords", "coords-numpy"):
        d = {}
        for n in m.names:
            c = m.cols[n].copy()
            d[n] = c if via == "coords-numpy" else torch.from_numpy(c)
        return Points.from_coordinates(d)
    tab = m.table(S.dtype).copy()
    sp = make_space(m.space_items())
    if via == "numpy":
        return Points(tab, sp)
    if via == "list" and tab.size > 0:
        return Points(tab.tolist(), sp, dtype=S.tdtype)
    return Points(torch.from_numpy(tab), sp)


def _first_diff(a, b):
    try:
        neq = np.argwhere(~((a == b) | (np.isnan(a) & np.isnan(b))))
        if len(neq):
            i = tuple(int(x) for x in neq[0])
            return f"first difference at {i}: got {a[i]!r} expected {b[i]!r}"
    except Exception:   # noqa: BLE001
        pass
    return "byte-level difference"


def tensor_bits_equal(t, ref):
    """t: torch tensor, ref: ndarray. -> (ok, detail)"""
    if not isinstance(t, torch.Tensor):
        return False, f"not a tensor: {type(t).__name__}"
    if tuple(t.shape) != tuple(ref.shape):
        return False, f"shape {tuple(t.shape)} expected {tuple(ref.shape)}"
    arr = t.detach().cpu().numpy()
    if arr.dtype != ref.dtype:
        return False, f"dtype {arr.dtype} expected {ref.dtype}"
    a = np.ascontiguousarray(arr)
    r = np.ascontiguousarray(ref)
    if a.tobytes() != r.tobytes():
        return False, _first_diff(a, r)
    return True, ""


def agree(S, real, m, kind, feature, what, tol=None):
    """Compare a library Points with the model; report and return False on disagreement."""
    ctx = S.ctx
    if not isinstance(real, Points):
        ctx.violation(kind, feature, f"{what}: returned {type(real).__name__}, expected Points")
        return False
    sp = getattr(real, "space", None)
    if not isinstance(sp, Space):
        ctx.violation(kind, feature, f"{what}: .space is {type(sp).__name__}")
        return False
    items = [(k, v) for k, v in sp.items()]
    if items != m.space_items():
        ctx.violation(kind, feature, f"{what}: space {items} expected {m.space_items()}")
        return False
    t = real.as_tensor
    ref = m.table(S.dtype)
    if not isinstance(t, torch.Tensor) or tuple(t.shape) != tuple(ref.shape):
        shp = tuple(t.shape) if isinstance(t, torch.Tensor) else type(t).__name__
        ctx.violation(kind, feature, f"{what}: tensor shape {shp} expected {tuple(ref.shape)}")
        return False
    if m.names:
        if tol is None:
            ok, why = tensor_bits_equal(t, ref)
        else:
            arr = t.detach().cpu().numpy()
            ok = arr.dtype == ref.dtype and bool(np.all(
                np.abs(arr.astype(np.float64) - ref.astype(np.float64))
                <= tol * np.maximum(1.0, np.abs(ref.astype(np.float64)))))
            why = "outside tolerance %g: %s" % (tol, _first_diff(arr, ref))
        if not ok:
            ctx.violation(kind, feature, f"{what}: {why}")
            return False
    # derived attributes
    bad = []
    try:
        if real.dim != m.dim:
            bad.append(f"dim {real.dim} expected {m.dim}")
        if tuple(real.shape) != m.batch:
            bad.append(f"shape {tuple(real.shape)} expected {m.batch}")
        if int(len(real)) != m.rows:
            bad.append(f"len {len(real)} expected {m.rows}")
        if real.variables != set(m.names):
            bad.append(f"variables {real.variables}")
        if bool(real.isempty) != m.is_empty():
            bad.append(f"isempty {real.isempty}")
    except Exception as e:   # noqa: BLE001
        bad.append(f"attribute access raised {type(e).__name__}: {e}")
    if bad:
        ctx.violation(kind, feature + "-attributes", f"{what}: " + "; ".join(bad))
        return False
    return True


def push(S, real, m, ok, via="tensor"):
    """Append the step result; after a failure continue from the model's version."""
    if not ok or real is FAILED:
        real = build_real(S, m, via)
    S.pool.append((real, m))
    if m.nb >= 2:
        S.cls("pool-nb%d" % min(m.nb, 3))


def src_of(S, op, key="src"):
    return S.pool[int(op.get(key, 0)) % len(S.pool)]


def find_ref(S, op, key, pred):
    """First pool object at/after the referenced index (cyclically) that satisfies pred."""
    n = len(S.pool)
    start = int(op.get(key, 0)) % n
    for k in range(n):
        r, mm = S.pool[(start + k) % n]
        if pred(mm):
            return r, mm
    return None, None


def lib_eq(S, a, b, expected, feature, what):
    r = lib_call(S, "==", feature, lambda: a == b)
    if r is FAILED:
        return
    if not isinstance(r, (bool, np.bool_)):
        S.ctx.violation("relation", feature, f"{what}: == returned {type(r).__name__}")
    elif bool(r) != expected:
        S.ctx.violation("relation", feature, f"{what}: == gave {bool(r)}, expected {expected}")


# ======================================================================================
# index expressions
# ======================================================================================
def _dec_item(it, n, unique, force_len=None):
    """-> (object handed to the library, model object, kind)"""
    t = it.get("t")
    if t == "int":
        if n == 0:
            return slice(None), slice(None), "slice"
        v = int(it["v"]) % (2 * n) - n
        return int(v), int(v % n), "int"
    if t == "slice":
        s = slice(it.get("a"), it.get("b"), it.get("s"))
        return s, s, "slice"
    if t == "mask":
        bits = it.get("bits") or [True]
        arr = np.array([bool(bits[k % len(bits)]) for k in range(n)], dtype=bool)
        real = torch.from_numpy(arr.copy()) if it.get("as") == "torch" else arr.copy()
        return real, arr, "mask"
    if t == "idx":
        vals = [] if n == 0 else [int(v) % (2 * n) - n for v in it.get("v", [])]
        if force_len is not None:
            vals = [vals[k % len(vals)] for k in range(force_len)] if vals else \
                ([0] * force_len if n else [])
        if unique:
            seen, u = set(), []
            for v in vals:
                if v % n not in seen:
                    seen.add(v % n)
                    u.append(v)
            vals = u
        how = it.get("as")
        if how == "numpy":
            real = np.array(vals, dtype=np.int64)
        elif how == "list" and vals:
            real = list(vals)
        else:
            real = torch.tensor(vals, dtype=torch.long)
        model = np.array([v % n for v in vals], dtype=np.int64) if n else np.zeros(0, np.int64)
        return real, model, "idx"
    raise core.HarnessError(f"unknown index item {it!r}")


def _dec_sel(sel, names):
    """-> (object handed to the library, selected names in order, kind)"""
    n = len(names)
    t = sel.get("t")
    if t == "name":
        nm = names[int(sel.get("pos", 0)) % n]
        return nm, [nm], "name"
    if t == "names":
        order = []
        for p in sel.get("pos") or [0]:
            nm = names[int(p) % n]
            if nm not in order:
                order.append(nm)
        real = list(order) if sel.get("as") == "list" else tuple(order)
        return real, order, "names"
    if t == "nslice":
        a, b = sel.get("a"), sel.get("b")
        ia = None if a is None else int(a) % n
        ib = None if b is None else int(b) % n
        step = sel.get("s")
        if step is not None:
            # name slice with a step (negative: reversed order); oracle = slicing the name list.
            # An empty selection (a Points without columns) is avoided by dropping the stop.
            step = int(step) or -1
            chosen = names[slice(ia, ib, step)]
            if not chosen:
                ib = None
                chosen = names[slice(ia, None, step)]
            real = slice(None if ia is None else names[ia], None if ib is None else names[ib], step)
            return real, list(chosen), "nslice-step"
        if ia is not None and ib is not None:
            if ia > ib:
                ia, ib = ib, ia
            if ia == ib:
                ib = None
        if ib == 0:
            ib = None
        chosen = names[slice(ia, ib)]
        if ia is None and ib is None:
            return slice(None), list(names), "colon"
        real = slice(None if ia is None else names[ia], None if ib is None else names[ib])
        return real, list(chosen), "nslice"
    raise core.HarnessError(f"unknown selector {sel!r}")


def _describe(real):
    def one(x):
        if x is Ellipsis:
            return "..."
        if isinstance(x, slice):
            return "%s:%s%s" % ("" if x.start is None else repr(x.start),
                                "" if x.stop is None else repr(x.stop),
                                "" if x.step is None else ":%r" % x.step)
        if isinstance(x, torch.Tensor):
            return "tensor(%s)" % x.tolist()
        if isinstance(x, np.ndarray):
            return "ndarray(%s)" % x.tolist()
        return repr(x)
    if isinstance(real, tuple):
        return "p[" + ", ".join(one(x) for x in real) + ("," if len(real) == 1 else "") + "]"
    return "p[" + one(real) + "]"


def decode_index(idx, m, unique=False, avoid=False):
    """Normalise a JSON index expression against model m.

    returns dict(real=<python index>, axes=<per batch axis model entries or ('maskn', arr, k)>,
                 sel=<names or None>, cls=<feature class>, form, perm, desc)
    """
    nb, batch = m.nb, m.batch
    form = idx.get("form", "bare")
    items = idx.get("items") or [{"t": "slice"}]
    state = {"arr_len": None}

    def item(j_item, axis):
        it = items[j_item % len(items)]
        n = batch[axis]
        if it.get("t") in ("mask", "idx") and state["arr_len"] is not None:
            if it.get("t") == "mask" or unique:
                return slice(None), slice(None), "slice"
            r = _dec_item(it, n, unique, force_len=state["arr_len"])
            if len(r[1]) != state["arr_len"]:
                return slice(None), slice(None), "slice"
            return r
        r = _dec_item(it, n, unique)
        if r[2] == "mask":
            state["arr_len"] = int(r[1].sum())
        elif r[2] == "idx":
            state["arr_len"] = len(r[1])
        return r

    axes = [slice(None)] * nb
    kinds = []
    sel_real = sel_names = sel_kind = None
    if form == "bare-ell":
        real = Ellipsis
    elif form == "ell-only":
        real = (Ellipsis,)
    elif form == "bare-maskn":
        k = 1 + int(idx.get("k", 0)) % nb
        bits = idx.get("bits") or [True, False]
        cnt = int(np.prod(batch[:k]))
        arr = np.array([bool(bits[i % len(bits)]) for i in range(cnt)], dtype=bool).reshape(batch[:k])
        real = torch.from_numpy(arr.copy())
        axes = ("maskn", arr, k)
        kinds = ["maskn"]
    elif form == "bare":
        r, mo, kd = item(0, 0)
        if isinstance(r, list):          # a bare list is outside the grammar
            r = torch.tensor(r, dtype=torch.long)
        real, axes[0], kinds = r, mo, [kd]
    elif form == "batch":
        k = 1 + int(idx.get("k", 0)) % nb
        rs = []
        for j in range(k):
            r, mo, kd = item(j, j)
            rs.append(r)
            axes[j] = mo
            kinds.append(kd)
        real = tuple(rs)
    else:
        sel_real, sel_names, sel_kind = _dec_sel(idx.get("sel") or {"t": "nslice"}, m.names)
        if form == "full":
            rs = []
            for j in range(nb):
                r, mo, kd = item(j, j)
                rs.append(r)
                axes[j] = mo
                kinds.append(kd)
            real = tuple(rs) + (sel_real,)
        elif form == "ell":
            pre = int(idx.get("k", 0)) % (nb + 1)
            post = int(idx.get("kp", 0)) % (nb + 1 - pre)
            rs = []
            for j in range(pre):
                r, mo, kd = item(j, j)
                rs.append(r)
                axes[j] = mo
                kinds.append(kd)
            rs.append(Ellipsis)
            for j in range(post):
                ax = nb - post + j
                r, mo, kd = item(pre + j, ax)
                rs.append(r)
                axes[ax] = mo
                kinds.append(kd)
            real = tuple(rs) + (sel_real,)
        else:
            raise core.HarnessError(f"unknown index form {form!r}")

    cls = "plain"
    if isinstance(real, tuple) and nb >= 2 and len(real) < nb + 1 and real and \
            all(isinstance(x, int) and not isinstance(x, bool) for x in real):
        cls = "two-batch-index"
    elif sel_kind in ("names", "nslice", "nslice-step", "colon") and any(k in ("mask", "idx") for k in kinds):
        cls = "adv-rows-name-list"
    excluded = None
    if avoid and cls == "two-batch-index":
        # same selection written in the full form p[i, j, :, :] (steps around D23)
        real = real + (slice(None),) * (nb + 1 - len(real))
        excluded, cls = cls, "plain"
        sel_kind, sel_names = "colon", list(m.names)
    elif avoid and cls == "adv-rows-name-list":
        # keep the rows, select one variable by name (steps around C12-N1)
        sel_names = sel_names[:1]
        real = real[:-1] + (sel_names[0],)
        excluded, cls, sel_kind = cls, "plain", "name"
    perm = False
    if sel_names is not None and len(sel_names) >= 2:
        storage = [n for n in m.names if n in sel_names]
        perm = storage != list(sel_names)
    return {"real": real, "axes": axes, "sel": sel_names, "cls": cls, "form": form,
            "perm": perm, "desc": _describe(real), "kinds": kinds, "sel_kind": sel_kind,
            "excluded": excluded}


def model_rows(m, axes):
    """Row ids (into the flattened batch) selected by the batch part; torch semantics
    (integers select first, then slices / arrays numpy style)."""
    rid = np.arange(m.rows, dtype=np.int64).reshape(m.batch)
    if isinstance(axes, tuple) and axes and axes[0] == "maskn":
        return rid[axes[1]]
    rest = []
    removed = 0
    for ax, e in enumerate(axes):
        if isinstance(e, (int, np.integer)) and not isinstance(e, bool):
            rid = np.take(rid, int(e), axis=ax - removed)
            removed += 1
        else:
            rest.append(e)
    if rest:
        rid = rid[tuple(rest)]
    return rid


def model_getitem(m, dec):
    rid = model_rows(m, dec["axes"])
    names = dec["sel"] if dec["sel"] is not None else list(m.names)
    shape = rid.shape if rid.ndim >= 1 else (1,)
    flat = rid.reshape(-1)
    cols = {}
    for n in names:
        c = m.cols[n]
        d = c.shape[-1]
        cols[n] = np.ascontiguousarray(c.reshape(-1, d)[flat].reshape(shape + (d,)))
    return M(names, cols, shape), rid


# ======================================================================================
# ops
# ======================================================================================
def op_new(S, op):
    varlist = dedupe_vars(op["vars"])[:5] or [("x", 1)]
    batch = [max(1, int(b)) for b in op.get("batch", [2])][:3] or [2]
    m = fresh_model(varlist, batch, op.get("fill", [0, 0]), S.dtype)
    via = op.get("via", "tensor")
    feature = "from_coordinates" if via.startswith("coords") else "constructor"
    real = lib_call(S, f"construct via {via}", feature, lambda: _build_real(S, m, via))
    ok = real is not FAILED and agree(S, real, m, "model-mismatch", feature,
                                      f"new Points via {via} {m.space_items()} batch {m.batch}")
    S.cls("via:" + via)
    push(S, real, m, ok)


def check_coords(S, real, m, feature, what=""):
    """p.coordinates must be exactly the named column groups of the model: keys in space order,
    every tensor bit for bit (shape, dtype, values).  Returns the dict or None."""
    cd = lib_call(S, "coordinates", feature, lambda: real.coordinates)
    if cd is FAILED:
        return None
    if not isinstance(cd, dict) or list(cd.keys()) != m.names:
        S.ctx.violation("model-mismatch", feature,
                        f"{what}keys {list(cd.keys()) if isinstance(cd, dict) else type(cd).__name__} "
                        f"expected {m.names}")
        return None
    for n in m.names:
        ok, why = tensor_bits_equal(cd[n], m.cols[n])
        if not ok:
            S.ctx.violation("model-mismatch", feature,
                            f"{what}coordinates[{n!r}] of space {m.space_items()}: {why}")
            return None
    return cd


def op_coords(S, op):
    real, m = src_of(S, op)
    cd = check_coords(S, real, m, "coordinates")
    if cd is None:
        return
    rt = lib_call(S, "from_coordinates(p.coordinates)", "roundtrip-coordinates",
                  lambda: Points.from_coordinates(dict(cd)))
    if rt is FAILED:
        return
    if agree(S, rt, m, "relation", "roundtrip-coordinates", "from_coordinates(p.coordinates)"):
        lib_eq(S, rt, real, True, "roundtrip-coordinates", "from_coordinates(p.coordinates) == p")


def _note_index(S, dec, m):
    S.cls("idx:" + dec["form"])
    for k in dec["kinds"]:
        S.cls("item:" + k)
    if dec["sel_kind"]:
        S.cls("sel:" + dec["sel_kind"])
    if dec["perm"]:
        S.perm_select = True
        S.cls("perm-select")
    if m.nb >= 2:
        S.multibatch = True
    if dec["cls"] != "plain":
        S.known_region += 1
        S.cls("region:" + dec["cls"])
    if dec.get("excluded"):
        S.excluded += 1
        S.cls("excluded-known:" + dec["excluded"])


def _feat(prefix, dec):
    return prefix if dec["cls"] == "plain" else f"{prefix}-{dec['cls']}"


def op_get(S, op):
    real, m = src_of(S, op)
    if not m.names:
        S.skipped += 1
        return
    dec = decode_index(op.get("idx", {}), m, avoid=S.avoid)
    _note_index(S, dec, m)
    exp, _ = model_getitem(m, dec)
    feature = _feat("getitem", dec)
    what = f"{dec['desc']} on space {m.space_items()} batch {m.batch}"
    if op.get("probe"):
        real = private(S, real, m)
    out = lib_call(S, what, feature, lambda: real[dec["real"]])
    ok = out is not FAILED and agree(S, out, exp, "model-mismatch", feature, what)
    if ok and dec["cls"] == "plain":
        # basic indexing returns views of the operand: only the result itself is compared
        ok, exp = probe_write(S, out, exp, op, "getitem", [])
    push(S, out, exp, ok)


def op_set(S, op):
    real, m = src_of(S, op)
    if not m.names:
        S.skipped += 1
        return
    dec = decode_index(op.get("idx", {}), m, unique=True, avoid=S.avoid)
    _note_index(S, dec, m)
    target, rid = model_getitem(m, dec)
    feature = _feat("setitem", dec)
    what = f"{dec['desc']} = v on space {m.space_items()} batch {m.batch}"
    val = fresh_model(target.space_items(), target.batch, op.get("fill", [1, 3]), S.dtype)
    clone = mk_points(S, real.as_tensor.detach().clone(), m.space_items())
    if op.get("bad") and len(val.names) >= 2:
        # value lies in the same variables in another order: documented to be rejected
        rev = list(reversed(val.space_items()))
        bad = build_real(S, fresh_model(rev, val.batch, [0, 1], S.dtype))

        def assign_bad():
            clone[dec["real"]] = bad
        S.cls("set:bad-order")
        must_reject(S, "setitem-other-order", what + " with value space " + str(rev), assign_bad)
        return
    vreal = build_real(S, val)

    def assign():
        clone[dec["real"]] = vreal
    r = lib_call(S, what, feature, assign)
    exp = _model_assign(m, rid, val)
    ok = r is not FAILED and agree(S, clone, exp, "model-mismatch", feature, what)
    if ok:
        okv = agree(S, vreal, val, "input-modified", "setitem", "assigned value changed")
        ok = ok and okv
    push(S, clone, exp, ok)


def _model_assign(m, rid, val):
    """Model of p[rows, names(val)] = val: only the addressed rows x columns change."""
    flat_rows = rid.reshape(-1)
    cols = {}
    for n in m.names:
        c = m.cols[n].copy()
        if n in val.cols:
            d = c.shape[-1]
            c2 = c.reshape(-1, d)
            c2[flat_rows] = val.cols[n].reshape(-1, d)
            c = c2.reshape(m.batch + (d,))
        cols[n] = c
    return M(m.names, cols, m.batch)


def private(S, real, m):
    """Private copy of a pool object (operand of a step that is followed by an in-place
    probe write), so that the pool itself is never written to."""
    return mk_points(S, real.as_tensor.detach().clone(), m.space_items())


def probe_write(S, out, exp, op, opname, sources):
    """Follow-up write into ONE row/block of a freshly produced result `out` (model `exp`):
    out[idx] = v is executed IN PLACE on the object the library returned.  Afterwards the whole
    result must equal the model (only the addressed rows x columns changed: the rows of a
    result are independent table rows), and every operand in `sources` [(real, model, label)]
    must still have its values.  `sources` lists only operands of operations for which the
    unmodified library builds the result in fresh memory (repeat, join, joined, |, arithmetic);
    for unsqueeze / indexing, where torch returns views, it is empty.  All operands are
    private copies, the pool is not touched.  Returns (ok, model after the write)."""
    probe = op.get("probe")
    if not probe or out is FAILED or not exp.names:
        return True, exp
    dec = decode_index(probe.get("idx") or {}, exp, unique=True, avoid=True)
    target, rid = model_getitem(exp, dec)
    val = fresh_model(target.space_items(), target.batch, probe.get("fill", [3, 5]), S.dtype)
    vreal = build_real(S, val)
    feature = opname + "-then-setitem"
    what = f"r = {opname}(...) with batch {exp.batch}, space {exp.space_items()}; r{dec['desc'][1:]} = v"
    S.cls("probe:" + opname)
    S.cls("probe-item:" + (dec["kinds"][0] if dec["kinds"] else "all-rows"))

    def assign():
        out[dec["real"]] = vreal
    r = lib_call(S, what, feature, assign)
    if r is FAILED:
        return False, exp
    after = _model_assign(exp, rid, val)
    ok = agree(S, out, after, "model-mismatch", feature,
               what + ": result after the assignment (only the addressed block may change)")
    for sr, sm, label in sources:
        agree(S, sr, sm, "input-modified", feature,
              what + f": operand {label} of {opname} changed by the assignment to the result")
    return ok, after


def op_commute(S, op):
    real, m = src_of(S, op)
    if not m.names:
        S.skipped += 1
        return
    row = dict(op.get("row") or {"t": "slice"})
    if row.get("t") == "idx" and row.get("as") == "list":
        row["as"] = "torch"
    sel = op.get("sel") or {"t": "nslice"}
    full = {"form": "ell", "items": [row], "k": 1, "kp": 0, "sel": sel}
    d_full = decode_index(full, m, avoid=S.avoid)
    d_row = decode_index({"form": "bare", "items": [row]}, m)
    if d_full.get("excluded"):
        sel = {"t": "name", "pos": m.names.index(d_full["sel"][0])}
    _note_index(S, d_full, m)
    S.cls("commute")
    exp, _ = model_getitem(m, d_full)
    what = f"{d_full['desc']} on space {m.space_items()} batch {m.batch}"
    f_a = _feat("getitem", d_full)
    a = lib_call(S, what, f_a, lambda: real[d_full["real"]])
    ok_a = a is not FAILED and agree(S, a, exp, "model-mismatch", f_a, what)
    # rows first, then columns
    b1 = lib_call(S, d_row["desc"], "getitem", lambda: real[d_row["real"]])
    ok_b = False
    b = FAILED
    if b1 is not FAILED:
        m1, _ = model_getitem(m, d_row)
        if agree(S, b1, m1, "model-mismatch", "getitem", d_row["desc"] + f" batch {m.batch}"):
            d2 = decode_index({"form": "ell", "items": [], "k": 0, "kp": 0, "sel": sel}, m1)
            # same names as in the full expression (selector positions refer to the same list)
            b = lib_call(S, d2["desc"], "getitem", lambda: b1[d2["real"]])
            ok_b = b is not FAILED and agree(S, b, exp, "relation", "slice-select-commute",
                                             f"p[rows][..., sel] for {what}")
    # columns first, then rows
    d3 = decode_index({"form": "ell", "items": [], "k": 0, "kp": 0, "sel": sel}, m)
    c1 = lib_call(S, d3["desc"], "getitem", lambda: real[d3["real"]])
    ok_c = False
    c = FAILED
    if c1 is not FAILED:
        m3, _ = model_getitem(m, d3)
        if agree(S, c1, m3, "model-mismatch", "getitem", d3["desc"] + f" space {m.space_items()}"):
            d4 = decode_index({"form": "bare", "items": [row]}, m3)
            c = lib_call(S, d4["desc"], "getitem", lambda: c1[d4["real"]])
            ok_c = c is not FAILED and agree(S, c, exp, "relation", "slice-select-commute",
                                             f"p[..., sel][rows] for {what}")
    if ok_b and ok_c:
        lib_eq(S, b, c, True, "slice-select-commute", "p[rows][..., sel] == p[..., sel][rows]")
    if ok_a and ok_b:
        lib_eq(S, a, b, True, "slice-select-commute", "p[rows, sel] == p[rows][..., sel]")
    push(S, a, exp, ok_a)


def _disjoint_vars(varlist, taken):
    out, taken = [], set(taken)
    for n, d in dedupe_vars(varlist):
        while n in taken:
            n = n + "2"
        taken.add(n)
        out.append((n, d))
    return out


def op_join(S, op):
    real, m = src_of(S, op)
    other = op.get("other") or {"kind": "fresh"}
    kind = other.get("kind", "fresh")
    left = op.get("side", "left") == "left"
    if kind == "overlap" and m.names:
        shared = m.names[int(other.get("pos", 0)) % len(m.names)]
        vl = [(shared, 1)] + _disjoint_vars(other.get("vars", []), m.names)
        o_m = fresh_model(vl, m.batch, other.get("fill", [0, 1]), S.dtype)
        o_real = build_real(S, o_m)
        S.cls("join:overlap")
        must_reject(S, "join-overlapping-names",
                    f"join of {m.space_items()} with {o_m.space_items()} returned",
                    (lambda: real.join(o_real)) if left else (lambda: o_real.join(real)))
        return
    if kind == "empty" or m.is_empty():
        o_m = empty_model() if not m.is_empty() else \
            fresh_model(dedupe_vars(other.get("vars") or [["x", 1]]), [2], [0, 0], S.dtype)
        o_real = build_real(S, o_m)
        S.cls("join:empty")
    else:
        o_real = o_m = None
        if kind == "ref":
            cr, cm = find_ref(S, other, "ref", lambda c: c.names and c.batch == m.batch
                              and not set(c.names) & set(m.names))
            if cm is not None:
                o_real, o_m = cr, cm
                S.cls("join:ref")
        if o_m is None:
            vl = _disjoint_vars(other.get("vars") or [["u", 1]], m.names)[:3]
            o_m = fresh_model(vl, m.batch, other.get("fill", [0, 1]), S.dtype)
            o_real = build_real(S, o_m)
    if len(m.names) + len(o_m.names) > MAX_VARS:
        S.skipped += 1
        return
    probing = bool(op.get("probe")) and not m.is_empty() and not o_m.is_empty()
    if probing:       # (join with an empty operand returns the other operand itself)
        real, o_real = private(S, real, m), private(S, o_real, o_m)
    a_r, a_m, b_r, b_m = (real, m, o_real, o_m) if left else (o_real, o_m, real, m)
    if a_m.is_empty():
        exp = b_m
    elif b_m.is_empty():
        exp = a_m
    else:
        cols = dict(a_m.cols)
        cols.update(b_m.cols)
        exp = M(a_m.names + b_m.names, cols, a_m.batch)
    what = f"{a_m.space_items()}.join({b_m.space_items()}) batch {a_m.batch}"
    out = lib_call(S, what, "join", lambda: a_r.join(b_r))
    ok = out is not FAILED and agree(S, out, exp, "model-mismatch", "join", what)
    if ok and probing:
        ok, exp = probe_write(S, out, exp, op, "join", [(a_r, a_m, "a"), (b_r, b_m, "b")])
    push(S, out, exp, ok)


def op_join3(S, op):
    real, m = src_of(S, op)
    if not m.names or len(m.names) > MAX_VARS - 2:
        S.skipped += 1
        return
    vb = _disjoint_vars(op.get("b") or [["u", 1]], m.names)[:2]
    vc = _disjoint_vars(op.get("c") or [["y", 2]], m.names + [n for n, _ in vb])[:2]
    b_m = fresh_model(vb, m.batch, op.get("fb", [0, 1]), S.dtype)
    c_m = fresh_model(vc, m.batch, op.get("fc", [1, 2]), S.dtype)
    b_r, c_r = build_real(S, b_m), build_real(S, c_m)
    cols = dict(m.cols)
    cols.update(b_m.cols)
    cols.update(c_m.cols)
    exp = M(m.names + b_m.names + c_m.names, cols, m.batch)
    what = f"join of {m.space_items()}, {vb}, {vc}"
    S.cls("join3")
    L = lib_call(S, "(a.join(b)).join(c)", "join", lambda: real.join(b_r).join(c_r))
    R = lib_call(S, "a.join(b.join(c))", "join", lambda: real.join(b_r.join(c_r)))
    J = lib_call(S, "Points.joined(a,b,c)", "joined", lambda: Points.joined(real, b_r, c_r))
    ok_l = L is not FAILED and agree(S, L, exp, "model-mismatch", "join", "(a.join(b)).join(c): " + what)
    ok_r = R is not FAILED and agree(S, R, exp, "model-mismatch", "join", "a.join(b.join(c)): " + what)
    ok_j = J is not FAILED and agree(S, J, exp, "model-mismatch", "joined", "joined(a,b,c): " + what)
    if ok_l and ok_r:
        lib_eq(S, L, R, True, "join-associative", "(a.join(b)).join(c) == a.join(b.join(c))")
    if ok_l and ok_j:
        lib_eq(S, L, J, True, "join-associative", "(a.join(b)).join(c) == joined(a,b,c)")
    push(S, L, exp, ok_l)


def op_joined(S, op):
    real, m = src_of(S, op)
    if not m.names or len(m.names) > MAX_VARS - 3:
        S.skipped += 1
        return
    if op.get("probe"):
        real = private(S, real, m)
    parts = [(real, m)]
    taken = list(m.names)
    for k, o in enumerate((op.get("others") or [])[:3]):
        vl = _disjoint_vars(o.get("vars") or [["u", 1]], taken)[:2]
        taken += [n for n, _ in vl]
        om = fresh_model(vl, m.batch, o.get("fill", [k, k + 1]), S.dtype)
        parts.append((build_real(S, om), om))
    pos = int(op.get("srcpos", 0)) % len(parts)
    parts.insert(pos, parts.pop(0))
    empties = sorted(set(int(e) % (len(parts) + 1) for e in (op.get("empties") or [])))[:2]
    for e in reversed(empties):
        parts.insert(e, (build_real(S, empty_model()), empty_model()))
    names, cols = [], {}
    for _, pm in parts:
        names += pm.names
        cols.update(pm.cols)
    exp = M(names, cols, m.batch)
    lead_empty = parts[0][1].is_empty()
    feature = "joined-leading-empty" if lead_empty else ("joined-with-empty" if empties else "joined")
    S.cls("op:" + feature)
    if lead_empty:
        S.known_region += 1
    what = "Points.joined(" + ", ".join(str(pm.space_items()) for _, pm in parts) + f") batch {m.batch}"
    out = lib_call(S, what, feature, lambda: Points.joined(*[p for p, _ in parts]))
    ok = out is not FAILED and agree(S, out, exp, "model-mismatch", feature, what)
    if ok and not lead_empty:
        ok, exp = probe_write(S, out, exp, op, "joined",
                              [(pr, pm, "#%d" % i) for i, (pr, pm) in enumerate(parts)
                               if not pm.is_empty()])
    push(S, out, exp, ok)


def op_or(S, op):
    real, m = src_of(S, op)
    other = op.get("other") or {"kind": "fresh"}
    kind = other.get("kind", "fresh")
    left = op.get("side", "left") == "left"
    if kind == "badspace" and m.names:
        if len(m.names) >= 2:
            items = list(reversed(m.space_items()))
        else:
            items = [(m.names[0] + "2", m.dims[0])]
        b_m = fresh_model(items, m.batch, [0, 2], S.dtype)
        if b_m.dim != m.dim or m.rows == 0:
            S.skipped += 1
            return
        b_r = build_real(S, b_m)
        S.cls("or:badspace")
        must_reject(S, "or-different-space", f"{m.space_items()} | {items} returned",
                    (lambda: real | b_r) if left else (lambda: b_r | real))
        return
    if kind == "empty" or m.is_empty():
        o_r, o_m = build_real(S, empty_model()), empty_model()
        S.cls("or:empty")
    elif kind == "self":
        o_r, o_m = real, m
    else:
        o_r = o_m = None
        if kind == "ref":
            cr, cm = find_ref(S, other, "ref", lambda c: c is not m and c.names and c.same_space(m)
                              and c.batch[1:] == m.batch[1:])
            if cm is not None:
                o_r, o_m = cr, cm
                S.cls("or:ref")
        if o_m is None:
            rows = int(other.get("rows", 2)) % 4
            o_m = fresh_model(m.space_items(), (rows,) + m.batch[1:], other.get("fill", [2, 1]), S.dtype)
            o_r = build_real(S, o_m)
            if rows == 0:
                S.cls("or:zero-rows")
    probing = bool(op.get("probe")) and not m.is_empty() and not o_m.is_empty()
    if probing:       # (| with an empty operand returns the other operand itself)
        same = o_r is real
        real = private(S, real, m)
        o_r = real if same else private(S, o_r, o_m)
    a_r, a_m, b_r, b_m = (real, m, o_r, o_m) if left else (o_r, o_m, real, m)
    if a_m.is_empty():
        exp = b_m
    elif b_m.is_empty():
        exp = a_m
    else:
        if (a_m.batch[0] + b_m.batch[0]) * int(np.prod(a_m.batch[1:])) * max(1, a_m.dim) > MAX_CELLS:
            S.skipped += 1
            return
        cols = {n: np.concatenate([a_m.cols[n], b_m.cols[n]], axis=0) for n in a_m.names}
        exp = M(a_m.names, cols, (a_m.batch[0] + b_m.batch[0],) + a_m.batch[1:])
    what = f"{a_m.space_items()} batch {a_m.batch} | batch {b_m.batch}"
    out = lib_call(S, what, "or", lambda: a_r | b_r)
    ok = out is not FAILED and agree(S, out, exp, "model-mismatch", "or", what)
    if ok and probing:
        ok, exp = probe_write(S, out, exp, op, "or", [(a_r, a_m, "a"), (b_r, b_m, "b")])
    push(S, out, exp, ok)


def op_repeat(S, op):
    real, m = src_of(S, op)
    if not m.names:
        S.skipped += 1
        return
    pre = op.get("pre")
    if op.get("probe") or pre:
        real = private(S, real, m)
    if pre == "row" and m.rows > 0:
        # a single row / block: batch axis 0 has length one
        m = M(m.names, {k: np.ascontiguousarray(v[:1]) for k, v in m.cols.items()},
              (1,) + m.batch[1:])
        real = build_real(S, m)
        S.cls("repeat:single-row")
    elif pre == "unsq0" and m.nb < MAX_BATCH_AXES:
        # (1, n, ...) batch produced by the library's own unsqueeze(0)
        m = M(m.names, {k: np.expand_dims(v, 0) for k, v in m.cols.items()}, (1,) + m.batch)
        src = real
        real = lib_call(S, "unsqueeze(0)", "unsqueeze", lambda: src.unsqueeze(0))
        if real is FAILED or not agree(S, real, m, "model-mismatch", "unsqueeze",
                                       f"unsqueeze(0) before repeat, batch {m.batch}"):
            return
        S.cls("repeat:after-unsqueeze0")
    n = [1 + int(v) % 3 for v in (op.get("n") or [2])][:m.nb] or [2]
    if op.get("only1"):
        # repeat only the batch axes of length one
        n = [r if b == 1 else 1 for r, b in zip(n, m.batch)]
    reps = tuple(n) + (1,) * (m.nb - len(n))
    if m.rows * int(np.prod(reps)) * m.dim > MAX_CELLS:
        S.skipped += 1
        return
    if any(b == 1 and r > 1 for b, r in zip(m.batch, reps)):
        S.cls("repeat:length-one-axis")
        if all(b == 1 or r == 1 for b, r in zip(m.batch, reps)):
            S.cls("repeat:only-length-one-axes")
    args = list(n)
    if op.get("trail1") and len(n) == m.nb:
        args = args + [1]        # the form the library itself uses: x.repeat(n, 1)
        S.cls("repeat:trailing-1")
    cols = {k: np.tile(v, reps + (1,)) for k, v in m.cols.items()}
    exp = M(m.names, cols, tuple(b * r for b, r in zip(m.batch, reps)))
    what = f"repeat{tuple(args)} on batch {m.batch}"
    out = lib_call(S, what, "repeat", lambda: real.repeat(*args))
    ok = out is not FAILED and agree(S, out, exp, "model-mismatch", "repeat", what)
    if ok:
        ok, exp = probe_write(S, out, exp, op, "repeat", [(real, m, "p")])
    push(S, out, exp, ok)


def op_unsq(S, op):
    real, m = src_of(S, op)
    if not m.names or m.nb >= MAX_BATCH_AXES:
        S.skipped += 1
        return
    nb = m.nb
    raw = int(op.get("dim", 0))
    dim = raw % (2 * nb + 2) - (nb + 1)          # in [-(nb+1), nb]
    pos = dim if dim >= 0 else nb + 1 + dim      # position inside the new batch shape
    cols = {k: np.expand_dims(v, pos) for k, v in m.cols.items()}
    exp = M(m.names, cols, m.batch[:pos] + (1,) + m.batch[pos:])
    feature = "unsqueeze-negative" if dim < 0 else "unsqueeze"
    S.cls("op:" + feature)
    what = f"unsqueeze({dim}) on batch {m.batch}"
    if op.get("probe"):
        real = private(S, real, m)
    out = lib_call(S, what, feature, lambda: real.unsqueeze(dim))
    ok = out is not FAILED and agree(S, out, exp, "model-mismatch", feature, what)
    if ok:
        # torch.unsqueeze returns a view of the operand: only the result itself is compared
        ok, exp = probe_write(S, out, exp, op, "unsqueeze", [])
    push(S, out, exp, ok)


ARITH = {"add": (lambda a, b: a + b), "sub": (lambda a, b: a - b), "mul": (lambda a, b: a * b),
         "div": (lambda a, b: a / b), "pow": (lambda a, b: a ** b)}


def op_arith(S, op):
    real, m = src_of(S, op)
    if not m.names or m.rows == 0:
        S.skipped += 1
        return
    f = op.get("f", "add")
    if f not in ARITH:
        raise core.HarnessError(f"unknown arithmetic op {f!r}")
    other = op.get("other", "fresh")
    tab = m.table(np.float64)
    big = float(np.abs(tab).max()) if tab.size else 0.0
    if not np.isfinite(big) or big > (1e4 if f == "pow" else 1e12):
        S.skipped += 1
        S.cls("skipped:arith-magnitude")
        return
    if other == "badspace":
        if len(m.names) >= 2:
            items = list(reversed(m.space_items()))
        else:
            items = [(m.names[0] + "2", m.dims[0])]
        b_m = fresh_model(items, m.batch, [0, 1], S.dtype, "nonzero")
        b_r = build_real(S, b_m)
        S.cls("arith:badspace")
        must_reject(S, "arith-different-space", f"{m.space_items()} {f} {items} returned",
                    lambda: ARITH[f](real, b_r))
        return
    o_r = o_m = None
    if other == "self" and f in ("add", "sub", "mul"):
        o_r, o_m = real, m
    elif other == "ref" and f in ("add", "sub", "mul"):
        def usable(c):
            if c is m or not (c.same_space(m) and c.batch == m.batch):
                return False
            ct = c.table(np.float64)
            return bool(ct.size and np.isfinite(ct).all() and float(np.abs(ct).max()) <= 1e12)
        cr, cm = find_ref(S, op, "ref", usable)
        if cm is not None:
            o_r, o_m = cr, cm
            S.cls("arith:ref")
    if o_m is None:
        kind = "nonzero" if f == "div" else "exponent" if f == "pow" else "any"
        o_m = fresh_model(m.space_items(), m.batch, op.get("fill", [0, 1]), S.dtype, kind)
        o_r = build_real(S, o_m)
    if op.get("probe"):
        same = o_r is real
        real = private(S, real, m)
        o_r = real if same else private(S, o_r, o_m)
    with np.errstate(all="ignore"):
        cols = {n: ARITH[f](m.cols[n], o_m.cols[n]).astype(S.dtype) for n in m.names}
    exp = M(m.names, cols, m.batch)
    tol = None
    if f == "pow":
        tol = 1e-12 if S.dtype == np.float64 else 1e-5
    what = f"a {f} b on space {m.space_items()} batch {m.batch}"
    S.cls("arith:" + f)
    out = lib_call(S, what, "arith-" + f, lambda: ARITH[f](real, o_r))
    ok = out is not FAILED and agree(S, out, exp, "model-mismatch", "arith-" + f, what, tol=tol)
    if ok and tol is not None:
        # adopt the library's (tolerated) rounding so later steps stay bit-comparable
        exp = model_from_table(m.names, m.dims,
                               np.ascontiguousarray(out.as_tensor.detach().cpu().numpy()))
    if ok:
        ok, exp = probe_write(S, out, exp, op, "arith", [(real, m, "a"), (o_r, o_m, "b")])
    push(S, out, exp, ok)


def op_eq(S, op):
    real, m = src_of(S, op)
    if not m.names:
        S.skipped += 1
        return
    variant = op.get("variant", "copy")
    tab = m.table(S.dtype)
    S.cls("eq:" + variant)
    if variant == "copy":
        other = build_real(S, m, "coords")
        lib_eq(S, real, other, True, "eq-copy", f"p == copy of p, space {m.space_items()}")
        lib_eq(S, other, real, True, "eq-copy", "copy == p")
    elif variant == "reorder":
        # same tensor, the same variables listed in another order
        k = 1 + int(op.get("cell", 0)) % max(1, len(m.names) - 1)
        items = m.space_items()[k:] + m.space_items()[:k]
        other = mk_points(S, torch.from_numpy(tab.copy()), items)
        expected = items == m.space_items()
        lib_eq(S, real, other, expected, "eq-variable-order",
               f"same tensor, space {m.space_items()} vs {items}")
    elif variant == "rename":
        new = m.names[int(op.get("cell", 0)) % len(m.names)] + "_r"
        while new in m.names:
            new += "_r"
        items = [(new if i == int(op.get("cell", 0)) % len(m.names) else n, d)
                 for i, (n, d) in enumerate(m.space_items())]
        other = mk_points(S, torch.from_numpy(tab.copy()), items)
        lib_eq(S, real, other, False, "eq-variable-name", f"space {m.space_items()} vs {items}")
    elif variant == "perturb":
        if tab.size == 0:
            S.skipped += 1
            return
        t2 = tab.copy()
        t2.reshape(-1)[int(op.get("cell", 0)) % t2.size] += 1.0
        other = mk_points(S, torch.from_numpy(t2), m.space_items())
        lib_eq(S, real, other, False, "eq-values", "one cell differs")
    else:
        cr, cm = src_of(S, op, "ref")
        if not cm.names:
            S.skipped += 1
            return
        expected = cm.same_space(m) and cm.batch == m.batch and \
            cm.table(S.dtype).tobytes() == tab.tobytes()
        lib_eq(S, real, cr, expected, "eq-objects",
               f"{m.space_items()}{m.batch} == {cm.space_items()}{cm.batch}")


def op_track(S, op):
    real, m = src_of(S, op)
    if not m.names or m.rows == 0 or real.as_tensor.requires_grad:
        S.skipped += 1
        return
    S.cls("track")
    check_track(S, real, m)


def check_track(S, real, m, what=""):
    """track_coord_gradients on `real` (model m, any float dtype). Returns True if all held."""
    npdt = m.cols[m.names[0]].dtype
    tdt = torch.float64 if npdt == np.float64 else torch.float32
    r = lib_call(S, "track_coord_gradients", "track", lambda: real.track_coord_gradients())
    if r is FAILED:
        return False
    if not (isinstance(r, tuple) and len(r) == 2 and isinstance(r[0], dict)):
        S.ctx.violation("model-mismatch", "track", f"{what}returned {type(r).__name__}")
        return False
    cd, pts = r
    if list(cd.keys()) != m.names:
        S.ctx.violation("model-mismatch", "track", f"{what}coordinate keys {list(cd.keys())} expected {m.names}")
        return False
    for n in m.names:
        ok, why = tensor_bits_equal(cd[n], m.cols[n])
        if not ok:
            S.ctx.violation("model-mismatch", "track", f"{what}coordinates[{n!r}]: {why}")
            return False
        if not cd[n].requires_grad:
            S.ctx.violation("model-mismatch", "track", f"{what}coordinates[{n!r}] does not require grad")
            return False
    if not agree(S, pts, m, "model-mismatch", "track", what + "points returned by track_coord_gradients"):
        return False
    # the returned points must be connected to the returned coordinates, column by column
    w = torch.arange(1, m.dim + 1, dtype=tdt)
    g = lib_call(S, "autograd through tracked points", "track",
                 lambda: torch.autograd.grad((pts.as_tensor * w).sum(), [cd[n] for n in m.names],
                                             allow_unused=True))
    if g is FAILED:
        return False
    off = 0
    for n, gi in zip(m.names, g):
        d = m.cols[n].shape[-1]
        ref = np.broadcast_to(np.arange(off + 1, off + d + 1, dtype=npdt), m.cols[n].shape)
        if gi is None or not tensor_bits_equal(gi, np.ascontiguousarray(ref))[0]:
            S.ctx.violation("model-mismatch", "track",
                            f"{what}gradient of weighted column sum w.r.t. {n!r} is wrong/unused")
            return False
        off += d
    if real.as_tensor.requires_grad:
        S.ctx.violation("input-modified", "track", what + "source points now require grad")
        return False
    return True


# --------------------------------------------------------------------------------------
# several calls on ONE mutable Points object
# --------------------------------------------------------------------------------------
TO_HOWS = ["pos", "kw", "dev-pos", "dev-kw", "tensor", "copy", "dev-only"]
LOOK_TENSOR, LOOK_COORDS, LOOK_SELECT = 1, 2, 4


def _to_call(how, tdt):
    """-> (args, kwargs, text) of one accepted spelling of Points.to (arguments are handed to
    torch.Tensor.to)."""
    name = str(tdt).replace("torch.", "")
    if how == "kw":
        return (), {"dtype": tdt}, f"to(dtype={name})"
    if how == "dev-pos":
        return ("cpu", tdt), {}, f"to('cpu', {name})"
    if how == "dev-kw":
        return (), {"device": torch.device("cpu"), "dtype": tdt}, f"to(device=cpu, dtype={name})"
    if how == "tensor":
        return (torch.zeros(1, dtype=tdt),), {}, f"to(tensor of dtype {name})"
    if how == "copy":
        return (tdt,), {"copy": True}, f"to({name}, copy=True)"
    if how == "dev-only":
        return ("cpu",), {}, "to('cpu')"
    return (tdt,), {}, f"to({name})"


def _m_dtype(m):
    return m.cols[m.names[0]].dtype


def _m_astype(m, npdt):
    return M(m.names, {k: np.ascontiguousarray(v.astype(npdt)) for k, v in m.cols.items()}, m.batch)


def life_look(S, p, m, look, last, hist):
    """Observe the object after a step: as_tensor/space/derived attributes, .coordinates and the
    selection of every single variable by name must all describe the SAME table (the model)."""
    what = "one object, calls so far [" + "; ".join(hist) + "]: "
    ok = True
    if look & LOOK_TENSOR:
        ok = agree(S, p, m, "model-mismatch", "points-after-" + last, what + "as_tensor/space") and ok
    if look & LOOK_COORDS:
        ok = (check_coords(S, p, m, "coordinates-after-" + last, what) is not None) and ok
    if look & LOOK_SELECT:
        for n in m.names:
            feature = "select-after-" + last
            q = lib_call(S, f"p[..., {n!r}]", feature, lambda: p[..., n])
            one = M([n], {n: m.cols[n]}, m.batch)
            ok = (q is not FAILED and agree(S, q, one, "model-mismatch", feature,
                                            what + f"p[..., {n!r}]")) and ok
    return ok


def op_life(S, op):
    """A short life of ONE Points object: reads (coordinates, repr, track_coord_gradients,
    indexing), the in-place conversion Points.to(...) and assignments are applied to the same
    object; after the steps (per-step bit mask "look") as_tensor, coordinates and selection by
    name are compared with the model.  The object is a private copy of a pool object; with
    "keep" it is converted back to the dtype of the case and joins the pool at the end."""
    real, m = src_of(S, op)
    steps = op.get("steps") or []
    if not m.names or m.rows == 0 or not steps or not np.isfinite(m.table(S.dtype)).all():
        S.skipped += 1
        return
    p = private(S, real, m)
    if op.get("keep"):
        steps = list(steps) + [{"do": "to", "dtype": "case", "how": "pos", "look": 7}]
    hist = []
    last = "new"                 # the last call that changed the object: new | to | setitem
    read_before = False          # .coordinates was read (directly or by repr/track) ...
    stale_risk = False           # ... and the tensor was replaced afterwards
    S.cls("life")
    for st_ in steps:
        do = st_.get("do")
        look = int(st_.get("look", 7)) & 7
        ok = True
        if do == "coords":
            hist.append("coordinates")
            ok = check_coords(S, p, m, "coordinates-after-" + last,
                              "one object, calls so far [" + "; ".join(hist) + "]: ") is not None
            read_before = True
        elif do == "repr":
            hist.append("repr")
            r = lib_call(S, "repr(p)", "repr", lambda: repr(p))
            if r is FAILED:
                return
            if not isinstance(r, str):
                S.ctx.violation("model-mismatch", "repr", f"repr returned {type(r).__name__}")
                return
            read_before = True
        elif do == "track":
            hist.append("track_coord_gradients")
            ok = check_track(S, p, m, "one object, calls so far [" + "; ".join(hist) + "]: ")
            read_before = True
        elif do == "to":
            cur = _m_dtype(m)
            want = st_.get("dtype", "flip")
            how = st_.get("how", "pos")
            if how not in TO_HOWS:
                raise core.HarnessError(f"unknown to-spelling {how!r}")
            if want == "case":
                tgt = S.dtype
            elif want == "same" or how == "dev-only":
                tgt = cur
            else:
                tgt = np.dtype(np.float32) if cur == np.float64 else np.dtype(np.float64)
            tdt = torch.float64 if tgt == np.float64 else torch.float32
            args, kwargs, text = _to_call(how, tdt)
            hist.append(text)
            replaced = tgt != cur or how == "copy"
            r = lib_call(S, text, "to", lambda: p.to(*args, **kwargs))
            if r is FAILED:
                return
            if not isinstance(r, Points):
                S.ctx.violation("model-mismatch", "to", f"{text} returned {type(r).__name__}, expected Points")
                return
            p = r                      # documented use: p = p.to(...)
            m = _m_astype(m, tgt)
            S.cls("life:to-" + ("convert" if tgt != cur else "copy" if replaced else "noop"))
            S.cls("life:to-how-" + how)
            if replaced and read_before:
                stale_risk = True
                S.cls("life:read-then-real-to")
            last = "to"
        elif do == "set":
            dec = decode_index(st_.get("idx") or {}, m, unique=True, avoid=True)
            _note_index(S, dec, m)
            target, rid = model_getitem(m, dec)
            val = fresh_model(target.space_items(), target.batch, st_.get("fill", [1, 3]), _m_dtype(m))
            vreal = build_real(S, val)
            hist.append(dec["desc"] + " = v")

            def assign():
                p[dec["real"]] = vreal
            r = lib_call(S, hist[-1], "setitem", assign)
            if r is FAILED:
                return
            m = _model_assign(m, rid, val)
            if stale_risk:
                S.cls("life:read-to-set")
            last = "setitem"
        elif do == "get":
            dec = decode_index(st_.get("idx") or {}, m, avoid=True)
            _note_index(S, dec, m)
            exp, _ = model_getitem(m, dec)
            hist.append(dec["desc"])
            q = lib_call(S, hist[-1], "getitem", lambda: p[dec["real"]])
            ok = q is not FAILED and agree(S, q, exp, "model-mismatch", "getitem-after-" + last,
                                           "one object, calls so far [" + "; ".join(hist) + "]")
        else:
            raise core.HarnessError(f"unknown life step {do!r}")
        S.cls("life:" + do)
        ok = life_look(S, p, m, look, last, hist) and ok
        if look & LOOK_COORDS:
            read_before = True
        if not ok:
            return                 # the object left the model: stop this life, keep the pool clean
    if not life_look(S, p, m, 7, last, hist):
        return
    if op.get("keep") and _m_dtype(m) == S.dtype:
        S.cls("life:kept")
        push(S, p, m, True)


def op_iter(S, op):
    real, m = src_of(S, op)
    if not m.names or m.batch[0] == 0:
        S.skipped += 1
        return
    S.cls("iter")
    rows = lib_call(S, "iterate", "iter", lambda: list(real))
    if rows is FAILED:
        return
    if len(rows) != m.batch[0]:
        S.ctx.violation("model-mismatch", "iter", f"{len(rows)} items, first batch axis has {m.batch[0]}")
        return
    for i, r in enumerate(rows):
        cols = {n: (c[i] if c[i].ndim >= 2 else c[i][None]) for n, c in m.cols.items()}
        exp = M(m.names, cols, m.batch[1:] if m.nb >= 2 else (1,))
        if not agree(S, r, exp, "model-mismatch", "iter", f"item {i} of iteration over batch {m.batch}"):
            return


def op_space(S, op):
    real, m = src_of(S, op)
    a_items = m.space_items()
    A = real.space
    o_items = dedupe_vars(op.get("other") or [["u", 1]])[:4]
    t_items = dedupe_vars(op.get("third") or [["x", 1]])[:3]
    ctx = S.ctx
    S.cls("space")

    def sp_ok(sp, items, feature, what):
        if not isinstance(sp, Space):
            ctx.violation("model-mismatch", feature, f"{what}: returned {type(sp).__name__}")
            return False
        got = list(sp.items())
        if got != items:
            ctx.violation("model-mismatch", feature, f"{what}: {got} expected {items}")
            return False
        d = lib_call(S, "dim", "space-dim", lambda: sp.dim)
        if d is not FAILED and d != sum(x for _, x in items):
            ctx.violation("model-mismatch", "space-dim", f"{what}: dim {d} for {items}")
            return False
        vs = lib_call(S, "variables", "space-variables", lambda: sp.variables)
        if vs is not FAILED and vs != set(n for n, _ in items):
            ctx.violation("model-mismatch", "space-variables", f"{what}: {vs}")
            return False
        return True

    O = lib_call(S, "Space(dict)", "space-construct", lambda: make_space(o_items))
    T = lib_call(S, "Space(dict)", "space-construct", lambda: make_space(t_items))
    if O is FAILED or T is FAILED or not sp_ok(O, o_items, "space-construct", "Space(dict)"):
        return
    # product: order, merging, associativity, order-sensitive equality
    p_items = merge_spaces(a_items, o_items)
    Pr = lib_call(S, "A*O", "space-mul", lambda: A * O)
    if Pr is FAILED or not sp_ok(Pr, p_items, "space-mul", f"{a_items} * {o_items}"):
        return
    if any(n in dict(a_items) for n, _ in o_items):
        S.cls("space:merged-names")
    L = lib_call(S, "(A*O)*T", "space-mul", lambda: (A * O) * T)
    R = lib_call(S, "A*(O*T)", "space-mul", lambda: A * (O * T))
    pt_items = merge_spaces(p_items, t_items)
    if L is not FAILED and R is not FAILED and sp_ok(L, pt_items, "space-mul", "(A*O)*T") and \
            sp_ok(R, merge_spaces(a_items, merge_spaces(o_items, t_items)), "space-mul", "A*(O*T)"):
        exp_eq = pt_items == merge_spaces(a_items, merge_spaces(o_items, t_items))
        r = lib_call(S, "==", "space-eq", lambda: (L == R, L != R))
        if r is not FAILED and (bool(r[0]) != exp_eq or bool(r[1]) == exp_eq):
            ctx.violation("model-mismatch", "space-eq", f"(A*O)*T == A*(O*T) gave {r}")
    rev_items = merge_spaces(o_items, a_items)
    Rv = lib_call(S, "O*A", "space-mul", lambda: O * A)
    if Rv is not FAILED and sp_ok(Rv, rev_items, "space-mul", f"{o_items} * {a_items}"):
        r = lib_call(S, "==", "space-eq", lambda: (Pr == Rv, Pr != Rv))
        exp_eq = p_items == rev_items
        if r is not FAILED and (bool(r[0]) != exp_eq or bool(r[1]) == exp_eq):
            ctx.violation("model-mismatch", "space-eq",
                          f"{p_items} == {rev_items} gave {r[0]}, != gave {r[1]}")
    # containment
    names = [n for n, _ in p_items]
    pd = dict(p_items)
    pick = []
    for p in op.get("pick") or [0]:
        nm = names[int(p) % len(names)]
        if nm not in pick:
            pick.append(nm)
    sub_items = [(n, pd[n]) for n in pick]
    Sub = lib_call(S, "Space(dict)", "space-construct", lambda: make_space(sub_items))
    if Sub is FAILED:
        return
    checks = [("sub-space in product", lambda: Sub in Pr, True),
              ("name in product", lambda: pick[0] in Pr, True),
              ("foreign name in product", lambda: "zz" in Pr, False),
              ("sub-space plus foreign variable in product",
               lambda: make_space(sub_items + [("zz", 1)]) in Pr, False),
              ("non-space in product", lambda: 5 in Pr, False)]
    if set(pick) != set(names):
        checks.append(("product in proper sub-space", lambda: Pr in Sub, False))
    if not set(dict(a_items)) & set(dict(o_items)):      # no merged names: dims are equal
        checks.append(("left factor in product", lambda: A in Pr, True))
        checks.append(("right factor in product", lambda: O in Pr, True))
    for what, f, expd in checks:
        r = lib_call(S, what, "space-contains", f)
        if r is not FAILED and bool(r) != expd:
            ctx.violation("model-mismatch", "space-contains",
                          f"{what}: {bool(r)} expected {expd}; product {p_items}, sub {sub_items}")
    # indexing
    r = lib_call(S, "P[name]", "space-getitem", lambda: Pr[pick[0]])
    if r is not FAILED and r != pd[pick[0]]:
        ctx.violation("model-mismatch", "space-getitem", f"P[{pick[0]!r}] = {r!r} expected {pd[pick[0]]}")
    for how in (list, tuple):
        r = lib_call(S, "P[names]", "space-getitem", lambda: Pr[how(pick)])
        if r is not FAILED:
            sp_ok(r, sub_items, "space-getitem", f"P[{how(pick)!r}] of {p_items}")
    if len(pick) >= 2 and [n for n in names if n in pick] != pick:
        S.perm_select = True
    ia = op.get("a")
    ib = op.get("b")
    ia = None if ia is None else int(ia) % len(names)
    ib = None if ib is None else int(ib) % len(names)
    step = op.get("s")
    step = None if step is None else (int(step) or -1)
    sl = slice(None if ia is None else names[ia], None if ib is None else names[ib], step)
    exp_items = p_items[slice(ia, ib, step)]
    if step is not None:
        S.cls("space:slice-step-neg" if step < 0 else "space:slice-step-pos")
        if step < 0 and (ia is None or ib is None):
            S.cls("space:slice-step-neg-open")
    r = lib_call(S, "P[a:b:s]", "space-getitem", lambda: Pr[sl])
    if r is not FAILED:
        sp_ok(r, exp_items, "space-getitem-slice",
              f"P[{sl.start!r}:{sl.stop!r}:{sl.step!r}] of {p_items}")
    # the factor must be unchanged by all of this
    if list(A.items()) != a_items:
        ctx.violation("input-modified", "space", f"factor space changed to {list(A.items())}")


OPS = {"new": op_new, "coords": op_coords, "get": op_get, "set": op_set, "commute": op_commute,
       "join": op_join, "join3": op_join3, "joined": op_joined, "or": op_or, "repeat": op_repeat,
       "unsq": op_unsq, "arith": op_arith, "eq": op_eq, "track": op_track, "iter": op_iter,
       "space": op_space, "life": op_life}


# ======================================================================================
# run_case
# ======================================================================================
def run_case(spec, ctx):
    S = State(ctx, spec.get("dtype", "float64"))
    S.avoid = bool(spec.get("avoid_known", False))
    init = dict(spec.get("init") or {})
    init.setdefault("vars", [["x", 1]])
    op_new(S, init)
    for op in spec.get("ops", []):
        name = op.get("op")
        if name not in OPS:
            raise core.HarnessError(f"unknown op {name!r}")
        before = len(ctx.case_violations)
        skipped = S.skipped
        OPS[name](S, op)
        S.cls("op:" + name)
        if S.skipped == skipped:
            S.executed += 1
        else:
            S.cls("skipped:" + name)
        if len(ctx.case_violations) != before:
            S.cls("step-with-violation")
        if op.get("src") is not None and S.pool[int(op["src"]) % len(S.pool)][1].nb >= 2:
            S.multibatch = True
    # no operation may have changed an earlier object
    for i, (real, m) in enumerate(S.pool):
        agree(S, real, m, "input-modified", "pool-object",
              f"pool object {i} {m.space_items()} batch {m.batch} changed after it was produced")
    nontrivial = S.perm_select or S.multibatch or S.executed >= 3
    classes = sorted(S.classes)
    classes.append("len:%s" % ("1-2" if S.executed <= 2 else "3-7" if S.executed <= 7
                               else "8-14" if S.executed <= 14 else "15+"))
    classes.append(str(S.dtype))
    if nontrivial:
        classes.append("nontrivial")
    return {"nontrivial": nontrivial, "classes": classes,
            "summary": {"ops_executed": S.executed, "ops_skipped": S.skipped,
                        "pool": len(S.pool), "perm_select": S.perm_select,
                        "multibatch": S.multibatch, "known_region_steps": S.known_region,
                        "excluded_by_known_finding": S.excluded}}


# ======================================================================================
# strategies
# ======================================================================================
def _fd(**kw):
    return st.fixed_dictionaries(kw)


_VARS = st.lists(st.tuples(st.sampled_from(NAMES), st.integers(1, 4)).map(list),
                 min_size=1, max_size=5, unique_by=lambda v: v[0])
_VARS_S = st.lists(st.tuples(st.sampled_from(NAMES), st.integers(1, 3)).map(list),
                   min_size=1, max_size=3, unique_by=lambda v: v[0])
_BATCH = st.lists(st.integers(1, 4), min_size=1, max_size=3)
_FILL = st.tuples(st.integers(0, 3), st.integers(-5, 5)).map(list)
_REF = st.integers(0, 11)
_OPTI = st.one_of(st.none(), st.integers(-5, 5))

_ITEM = st.one_of(
    _fd(t=st.just("int"), v=st.integers(-8, 7)),
    _fd(t=st.just("slice"), a=_OPTI, b=_OPTI, s=st.sampled_from([None, None, 1, 2, 3])),
    _fd(t=st.just("mask"), bits=st.lists(st.booleans(), min_size=1, max_size=4),
        **{"as": st.sampled_from(["torch", "numpy"])}),
    _fd(t=st.just("idx"), v=st.lists(st.integers(-8, 7), min_size=0, max_size=4),
        **{"as": st.sampled_from(["torch", "numpy", "list"])}),
)
_ROW = st.one_of(
    _fd(t=st.just("int"), v=st.integers(-8, 7)),
    _fd(t=st.just("slice"), a=_OPTI, b=_OPTI, s=st.sampled_from([None, None, 1, 2, 3])),
    _fd(t=st.just("mask"), bits=st.lists(st.booleans(), min_size=1, max_size=4),
        **{"as": st.sampled_from(["torch", "numpy"])}),
    _fd(t=st.just("idx"), v=st.lists(st.integers(-8, 7), min_size=1, max_size=4),
        **{"as": st.sampled_from(["torch", "numpy"])}),
)
_POS = st.integers(0, 6)
_SEL = st.one_of(
    _fd(t=st.just("name"), pos=_POS),
    _fd(t=st.just("names"), pos=st.lists(_POS, min_size=1, max_size=5),
        **{"as": st.sampled_from(["tuple", "list"])}),
    _fd(t=st.just("names"), pos=st.lists(_POS, min_size=2, max_size=5),
        **{"as": st.sampled_from(["tuple", "list"])}),
    _fd(t=st.just("nslice"), a=st.one_of(st.none(), _POS), b=st.one_of(st.none(), _POS)),
    # name slice with a step; negative steps with an omitted bound are over-weighted
    _fd(t=st.just("nslice"), a=st.one_of(st.none(), st.none(), _POS),
        b=st.one_of(st.none(), st.none(), _POS), s=st.sampled_from([-1, -1, -1, -2, -2, -3, 2, 1])),
)
_IDX = _fd(form=st.sampled_from(["bare", "bare", "batch", "batch", "full", "full", "full",
                                 "ell", "ell", "ell", "ell-only", "bare-ell", "bare-maskn"]),
           items=st.lists(_ITEM, min_size=1, max_size=3), k=st.integers(0, 3),
           kp=st.integers(0, 3), sel=_SEL,
           bits=st.lists(st.booleans(), min_size=1, max_size=6))

# follow-up write into one row/block of a fresh result: the first entry addresses batch axis 0
_PROBE_ROW = st.one_of(
    _fd(t=st.just("int"), v=st.integers(-8, 7)),
    _fd(t=st.just("int"), v=st.integers(-8, 7)),
    _fd(t=st.just("slice"), a=st.integers(-4, 4), b=_OPTI, s=st.sampled_from([None, None, 2])),
    _fd(t=st.just("idx"), v=st.lists(st.integers(-8, 7), min_size=1, max_size=2),
        **{"as": st.sampled_from(["torch", "numpy", "list"])}),
    _fd(t=st.just("mask"), bits=st.lists(st.booleans(), min_size=2, max_size=4),
        **{"as": st.sampled_from(["torch", "numpy"])}),
)
_PROBE_IDX = _fd(form=st.sampled_from(["bare", "batch", "batch", "full", "ell", "ell"]),
                 items=st.tuples(_PROBE_ROW, _ITEM, _ITEM).map(list), k=st.integers(0, 3),
                 kp=st.integers(0, 1), sel=_SEL, bits=st.just([True]))
_PROBE = _fd(idx=_PROBE_IDX, fill=_FILL)
_PROBE_SOME = st.one_of(st.none(), _PROBE)            # every 2nd step is followed by a write
_PROBE_FEW = st.one_of(st.none(), st.none(), st.none(), _PROBE)

_JOIN_OTHER = st.one_of(
    _fd(kind=st.just("fresh"), vars=_VARS_S, fill=_FILL),
    _fd(kind=st.just("fresh"), vars=_VARS_S, fill=_FILL),
    _fd(kind=st.just("ref"), ref=_REF, vars=_VARS_S, fill=_FILL),
    _fd(kind=st.just("empty")),
    _fd(kind=st.just("overlap"), pos=_POS, vars=_VARS_S, fill=_FILL),
)
_OR_OTHER = st.one_of(
    _fd(kind=st.just("fresh"), rows=st.integers(0, 3), fill=_FILL),
    _fd(kind=st.just("fresh"), rows=st.integers(1, 3), fill=_FILL),
    _fd(kind=st.just("self")),
    _fd(kind=st.just("ref"), ref=_REF, rows=st.integers(1, 3), fill=_FILL),
    _fd(kind=st.just("empty")),
    _fd(kind=st.just("badspace")),
)
_SIDE = st.sampled_from(["left", "left", "right"])


# several calls on one object: reads, Points.to (mostly a real dtype change), assignments; "look" =
# bit mask of the observers run after the step (1 as_tensor, 2 coordinates, 4 selection by name)
_LOOK = st.sampled_from([7, 7, 7, 7, 7, 7, 0, 0, 1, 2, 4, 3, 5, 6])
_LIFE_TO = _fd(do=st.just("to"), dtype=st.sampled_from(["flip", "flip", "flip", "same"]),
               how=st.sampled_from(["pos", "pos", "kw", "dev-pos", "dev-kw", "tensor", "copy", "copy",
                                    "dev-only"]), look=_LOOK)
_LIFE_SET = _fd(do=st.just("set"), idx=st.one_of(_PROBE_IDX, _PROBE_IDX, _IDX), fill=_FILL, look=_LOOK)
_LIFE_STEP = st.one_of(
    _fd(do=st.just("coords"), look=_LOOK), _fd(do=st.just("coords"), look=_LOOK),
    _fd(do=st.just("repr"), look=_LOOK), _fd(do=st.just("track"), look=_LOOK),
    _LIFE_TO, _LIFE_TO, _LIFE_TO, _LIFE_SET, _LIFE_SET, _LIFE_SET,
    _fd(do=st.just("get"), idx=_IDX, look=_LOOK),
)


def _new_op():
    return _fd(op=st.just("new"), vars=_VARS, batch=_BATCH, fill=_FILL, via=st.sampled_from(VIAS))


def _op():
    get = _fd(op=st.just("get"), src=_REF, idx=_IDX, probe=_PROBE_FEW)
    repeat = _fd(op=st.just("repeat"), src=_REF, n=st.lists(st.integers(0, 2), min_size=1, max_size=3),
                 trail1=st.booleans(), pre=st.sampled_from([None, None, None, "row", "unsq0"]),
                 only1=st.sampled_from([False, False, True]),
                 probe=st.one_of(st.none(), _PROBE, _PROBE))
    setv = _fd(op=st.just("set"), src=_REF, idx=_IDX, fill=_FILL,
               bad=st.sampled_from([False] * 7 + [True]))
    life = _fd(op=st.just("life"), src=_REF, steps=st.lists(_LIFE_STEP, min_size=1, max_size=8),
               keep=st.booleans())
    return st.one_of(
        get, get, get, get, setv, setv, setv, life, life, life,
        _fd(op=st.just("commute"), src=_REF, row=_ROW, sel=_SEL),
        _fd(op=st.just("commute"), src=_REF, row=_ROW, sel=_SEL),
        _new_op(),
        _fd(op=st.just("coords"), src=_REF),
        _fd(op=st.just("join"), src=_REF, other=_JOIN_OTHER, side=_SIDE, probe=_PROBE_SOME),
        _fd(op=st.just("join"), src=_REF, other=_JOIN_OTHER, side=_SIDE, probe=_PROBE_SOME),
        _fd(op=st.just("join3"), src=_REF, b=_VARS_S, c=_VARS_S, fb=_FILL, fc=_FILL),
        _fd(op=st.just("joined"), src=_REF,
            others=st.lists(_fd(vars=_VARS_S, fill=_FILL), min_size=0, max_size=3),
            srcpos=st.integers(0, 3), empties=st.lists(st.integers(0, 4), max_size=2),
            probe=_PROBE_SOME),
        _fd(op=st.just("or"), src=_REF, other=_OR_OTHER, side=_SIDE, probe=_PROBE_SOME),
        _fd(op=st.just("or"), src=_REF, other=_OR_OTHER, side=_SIDE, probe=_PROBE_SOME),
        repeat, repeat,
        _fd(op=st.just("unsq"), src=_REF, dim=st.integers(0, 9), probe=_PROBE_SOME),
        _fd(op=st.just("arith"), src=_REF, f=st.sampled_from(["add", "sub", "mul", "div", "pow"]),
            other=st.sampled_from(["fresh", "fresh", "self", "ref", "badspace"]), ref=_REF, fill=_FILL,
            probe=_PROBE_FEW),
        _fd(op=st.just("arith"), src=_REF, f=st.sampled_from(["add", "sub", "mul", "div", "pow"]),
            other=st.sampled_from(["fresh", "fresh", "self", "ref", "badspace"]), ref=_REF, fill=_FILL,
            probe=_PROBE_FEW),
        _fd(op=st.just("eq"), src=_REF, ref=_REF, cell=st.integers(0, 40),
            variant=st.sampled_from(["copy", "reorder", "reorder", "rename", "perturb", "ref"])),
        _fd(op=st.just("track"), src=_REF),
        _fd(op=st.just("iter"), src=_REF),
        _fd(op=st.just("space"), src=_REF, other=_VARS, third=_VARS_S,
            pick=st.lists(_POS, min_size=1, max_size=4),
            a=st.one_of(st.none(), _POS), b=st.one_of(st.none(), _POS),
            s=st.sampled_from([None, None, -1, -1, -2, -3, 2, 1])),
    )


def strategy(tier):
    short = 14
    long_ = 30
    op = _op()
    dt = st.sampled_from(["float64", "float64", "float32"])
    av = st.booleans()
    a = _fd(dtype=dt, avoid_known=av, init=_new_op(), ops=st.lists(op, min_size=1, max_size=short))
    b = _fd(dtype=dt, avoid_known=av, init=_new_op(), ops=st.lists(op, min_size=15, max_size=long_))
    return st.one_of(a, a, a, b)


# ======================================================================================
# deterministic sweep over the index grammar
# ======================================================================================
def _sweep_indices():
    I = lambda v: {"t": "int", "v": v}                                   # noqa: E731
    SL = lambda a=None, b=None, s=None: {"t": "slice", "a": a, "b": b, "s": s}   # noqa: E731
    MK = lambda bits, how="torch": {"t": "mask", "bits": bits, "as": how}        # noqa: E731
    IX = lambda v, how="torch": {"t": "idx", "v": v, "as": how}                  # noqa: E731
    items = [I(9), I(-1), I(0), SL(), SL(1), SL(None, -1), SL(0, 3, 2), SL(1, 1),
             MK([True, False]), MK([False, True, True], "numpy"), MK([False]),
             IX([1, 0]), IX([0, 2, 1], "numpy"), IX([2, 0], "list"), IX([-1], "list"), IX([])]
    sels = [{"t": "name", "pos": 0}, {"t": "name", "pos": 2},
            {"t": "names", "pos": [2, 0], "as": "tuple"}, {"t": "names", "pos": [1, 2, 0], "as": "list"},
            {"t": "names", "pos": [1], "as": "list"}, {"t": "nslice", "a": None, "b": None},
            {"t": "nslice", "a": 1, "b": None}, {"t": "nslice", "a": 0, "b": 2},
            {"t": "nslice", "a": None, "b": 1}]
    out = []
    for it in items:
        out.append({"form": "bare", "items": [it]})
    out.append({"form": "bare-ell"})
    out.append({"form": "ell-only"})
    out.append({"form": "bare-maskn", "k": 0, "bits": [True, False, True]})
    out.append({"form": "bare-maskn", "k": 1, "bits": [False, True, True, False, True]})
    for k in range(3):
        for j, it in enumerate(items):
            out.append({"form": "batch", "k": k, "items": [it, items[(j + 3 + k) % len(items)],
                                                           items[(j + 5) % len(items)]]})
    n = 0
    for j, it in enumerate(items):
        for s in sels[n % 3::3]:
            out.append({"form": "full", "items": [it, items[(j + 1) % 8], items[(j + 4) % 8]],
                        "sel": s})
            out.append({"form": "ell", "k": n % 4, "kp": (n // 2) % 3,
                        "items": [it, items[(j + 2) % 8]], "sel": s})
            n += 1
    return out


def extra_cases(tier, seed):
    idxs = _sweep_indices()
    varsets = [[["x", 2], ["t", 1], ["u", 3]], [["k", 1], ["D", 2], ["w", 1], ["x", 1]]]
    batches = [[4], [3, 4], [2, 3, 2]]
    specs = []
    for bi, batch in enumerate(batches):
        vs = varsets[bi % 2]
        chunk = 24
        for c in range(0, len(idxs), chunk):
            ops = []
            for idx in idxs[c:c + chunk]:
                full = dict({"form": "bare", "items": [{"t": "slice", "a": None, "b": None, "s": None}],
                             "k": 0, "kp": 0, "sel": {"t": "nslice", "a": None, "b": None},
                             "bits": [True]}, **idx)
                ops.append({"op": "get", "src": 0, "idx": full})
                ops.append({"op": "set", "src": 0, "idx": full, "fill": [1, 4], "bad": False})
            specs.append({"dtype": "float64" if bi != 1 else "float32",
                          "init": {"op": "new", "vars": vs, "batch": batch, "fill": [0, 1],
                                   "via": VIAS[(bi + c) % len(VIAS)]},
                          "ops": ops})
    # remaining operations on fixed objects (pins the planned mutants independent of the seed)
    for bi, batch in enumerate(batches):
        vs = varsets[(bi + 1) % 2]
        ops = [{"op": "coords", "src": 0}, {"op": "iter", "src": 0}, {"op": "track", "src": 0}]
        for d in range(0, 2 * len(batch) + 2):
            ops.append({"op": "unsq", "src": 0, "dim": d})
        ops += [{"op": "repeat", "src": 0, "n": [1], "trail1": False},
                {"op": "repeat", "src": 0, "n": [2, 1], "trail1": True},
                {"op": "repeat", "src": 0, "n": [1, 2, 1], "trail1": False},
                {"op": "join3", "src": 0, "b": [["x", 1]], "c": [["y", 2]], "fb": [0, 1], "fc": [1, 2]},
                {"op": "join", "src": 0, "other": {"kind": "empty"}, "side": "left"},
                {"op": "join", "src": 0, "other": {"kind": "empty"}, "side": "right"},
                {"op": "join", "src": 0, "other": {"kind": "fresh", "vars": [["y", 2]], "fill": [1, 1]}, "side": "right"},
                {"op": "join", "src": 0, "other": {"kind": "overlap", "pos": 1, "vars": [["y", 1]], "fill": [0, 0]}, "side": "left"},
                {"op": "joined", "src": 0, "others": [{"vars": [["y", 1]], "fill": [0, 2]}, {"vars": [["u", 2]], "fill": [1, 2]}],
                 "srcpos": 1, "empties": [2]},
                {"op": "or", "src": 0, "other": {"kind": "fresh", "rows": 2, "fill": [1, 2]}, "side": "left"},
                {"op": "or", "src": 0, "other": {"kind": "fresh", "rows": 3, "fill": [1, 2]}, "side": "right"},
                {"op": "or", "src": 0, "other": {"kind": "empty"}, "side": "right"},
                {"op": "or", "src": 0, "other": {"kind": "badspace"}, "side": "left"}]
        for f in ["add", "sub", "mul", "div", "pow"]:
            ops.append({"op": "arith", "src": 0, "f": f, "other": "fresh", "ref": 0, "fill": [2, 1]})
        ops.append({"op": "arith", "src": 0, "f": "sub", "other": "badspace", "ref": 0, "fill": [0, 0]})
        for v in ["copy", "reorder", "rename", "perturb", "ref"]:
            ops.append({"op": "eq", "src": 0, "ref": 3, "cell": 1, "variant": v})
        ops.append({"op": "space", "src": 0, "other": [["u", 2], ["x", 1], ["k", 3]], "third": [["t", 2], ["y", 1]],
                    "pick": [3, 0, 2], "a": 1, "b": 3})
        ops.append({"op": "space", "src": 0, "other": [["y", 1]], "third": [["y", 2]], "pick": [1], "a": None, "b": 2})
        for r in [{"t": "int", "v": 1}, {"t": "slice", "a": 1, "b": None, "s": 2},
                  {"t": "mask", "bits": [True, False, True], "as": "torch"},
                  {"t": "idx", "v": [2, 0], "as": "numpy"}]:
            ops.append({"op": "commute", "src": 0, "row": r, "sel": {"t": "names", "pos": [2, 0], "as": "tuple"}})
            ops.append({"op": "commute", "src": 0, "row": r, "sel": {"t": "name", "pos": 1}})
        specs.append({"dtype": "float64", "init": {"op": "new", "vars": vs, "batch": batch,
                                                   "fill": [0, -1], "via": "coords"}, "ops": ops})
    specs += _pinned_step_slices() + _pinned_probes() + _pinned_lives()
    return specs


def _pinned_lives():
    """Several calls on one Points object: a read of the coordinates (directly, through repr or
    track_coord_gradients, or only by the observers), every spelling of Points.to with and
    without a real change of the tensor, an assignment afterwards, reads in between / only at
    the end; a kept object is used by later steps of the history."""
    row = lambda v: {"t": "int", "v": v}                                       # noqa: E731
    sl = {"t": "slice", "a": 1, "b": 2, "s": None}
    colon = {"t": "nslice", "a": None, "b": None}

    def IDX(first, sel, form="ell"):
        return {"form": form, "items": [first, {"t": "slice", "a": None, "b": None, "s": None}],
                "k": 1, "kp": 0, "sel": sel, "bits": [True]}

    def TO(how="pos", dtype="flip", look=7):
        return {"do": "to", "dtype": dtype, "how": how, "look": look}

    def SET(idx, look=7, fill=(2, 3)):
        return {"do": "set", "idx": idx, "fill": list(fill), "look": look}

    def RD(do="coords", look=7):
        return {"do": do, "look": look}
    name_t = {"t": "name", "pos": 1}
    set_t = IDX(sl, name_t)
    set_row = IDX(row(-1), colon, "batch")
    set_two = IDX(row(0), {"t": "names", "pos": [2, 0], "as": "tuple"})
    specs = []
    for bi, (dtype, batch) in enumerate([("float32", [3]), ("float64", [3]), ("float32", [2, 3]),
                                         ("float64", [3, 1, 2])]):
        lives = []
        # read - convert - read - assign - read, for every spelling of to()
        for how in TO_HOWS:
            lives.append([RD(), TO(how), RD(), SET(set_t), RD()])
        # the read happens through repr / track_coord_gradients / the observers only
        lives.append([RD("repr", 0), TO("pos", look=0), RD(look=0), SET(set_t, 0), RD(look=0)])
        lives.append([RD("track", 0), TO("kw", look=2), SET(set_two, 2)])
        lives.append([RD("repr", 2), TO("tensor", look=4), SET(set_row, 6)])
        # a new tensor of the same dtype: only a later assignment tells old and new tensor apart
        lives.append([RD(), TO("copy", "same"), SET(set_t), SET(set_row)])
        lives.append([RD(look=0), TO("copy", "same", 0), SET(set_two, 0)])
        # never read before the conversion / conversion that changes nothing
        lives.append([TO("pos", look=0), SET(set_t, 0), RD()])
        lives.append([RD(), TO("pos", "same"), TO("dev-only"), SET(set_t), RD()])
        # there and back again, assignments in both precisions, reads only at the end
        lives.append([RD(), TO("pos", look=1), SET(set_row, 1), TO("dev-pos", look=1), SET(set_t, 1),
                      {"do": "get", "idx": IDX(sl, name_t), "look": 0}, RD("track", 0)])
        ops = [{"op": "life", "src": 0, "steps": st_, "keep": False} for st_ in lives]
        # kept objects (converted, assigned, converted back) are operands of later steps
        ops.append({"op": "life", "src": 0, "keep": True,
                    "steps": [RD(), TO("pos"), SET(set_t), RD(look=0)]})
        k = 1                      # pool index of the kept object (lives without keep add nothing)
        ops += [{"op": "coords", "src": k}, {"op": "track", "src": k}, {"op": "iter", "src": k},
                {"op": "eq", "src": k, "ref": 0, "cell": 1, "variant": "copy"},
                {"op": "get", "src": k, "idx": IDX(sl, {"t": "names", "pos": [2, 1], "as": "list"})},
                {"op": "commute", "src": k, "row": sl, "sel": name_t},
                {"op": "life", "src": k, "keep": True, "steps": [TO("copy", "same"), SET(set_row), RD()]},
                {"op": "coords", "src": 4}]          # the second kept object
        specs.append({"dtype": dtype, "avoid_known": True,
                      "init": {"op": "new", "vars": [["x", 2], ["t", 1], ["u", 3]], "batch": batch,
                               "fill": [1, 2], "via": VIAS[bi % len(VIAS)]},
                      "ops": ops})
    return specs


def _pinned_step_slices():
    """Name slices with a step (all combinations of omitted / given bounds) as Space index and
    as column selector of Points (get, set, commutation)."""
    NS = lambda a, b, s: {"t": "nslice", "a": a, "b": b, "s": s}          # noqa: E731
    sels = [NS(None, None, -1), NS(2, None, -1), NS(None, 0, -2), NS(None, 1, -1), NS(3, 0, -1),
            NS(1, None, -2), NS(None, None, -2), NS(None, None, 2), NS(1, None, 2), NS(0, 3, 2),
            NS(None, None, -3), NS(3, 1, 1)]
    row = {"t": "slice", "a": None, "b": None, "s": None}
    specs = []
    for bi, (batch, vs) in enumerate([([3], [["x", 2], ["t", 1], ["u", 3], ["a", 1]]),
                                      ([2, 3], [["k", 1], ["D", 2], ["w", 1], ["x", 1], ["t", 2]])]):
        ops = []
        for j, sel in enumerate(sels):
            full = {"form": "full", "items": [row], "k": 0, "kp": 0, "sel": sel, "bits": [True]}
            ell = {"form": "ell", "items": [{"t": "int", "v": j}], "k": j % 2, "kp": 0, "sel": sel,
                   "bits": [True]}
            ops.append({"op": "get", "src": 0, "idx": full})
            ops.append({"op": "get", "src": 0, "idx": ell})
            ops.append({"op": "set", "src": 0, "idx": full if j % 2 else ell, "fill": [2, 3], "bad": False})
            ops.append({"op": "commute", "src": 0, "row": {"t": "slice", "a": 1, "b": None, "s": None},
                        "sel": sel})
            ops.append({"op": "space", "src": 0, "other": [["y", 1], ["q", 2]], "third": [["x", 1]],
                        "pick": [1, 0], "a": sel["a"], "b": sel["b"], "s": sel["s"]})
        specs.append({"dtype": "float64" if bi == 0 else "float32",
                      "init": {"op": "new", "vars": vs, "batch": batch, "fill": [0, 1], "via": "tensor"},
                      "ops": ops})
    return specs


def _pinned_probes():
    """Every result-producing operation followed by a write into one row/block of the result;
    repeat on batch axes of length one (single row, (1, n) after unsqueeze(0), middle axis)."""
    def PR(row, form="bare", sel=None, k=0, fill=(3, 5)):
        return {"idx": {"form": form, "items": [row, {"t": "slice", "a": None, "b": None, "s": None}],
                        "k": k, "kp": 0, "sel": sel or {"t": "nslice", "a": None, "b": None},
                        "bits": [True]}, "fill": list(fill)}
    I = lambda v: {"t": "int", "v": v}                                    # noqa: E731
    name = {"t": "name", "pos": 1}
    probes = [PR(I(1)), PR(I(-1), "batch"), PR(I(1), "ell", name, k=1),
              PR({"t": "slice", "a": 1, "b": 2, "s": None}, "ell", {"t": "names", "pos": [1, 0], "as": "tuple"}, k=1),
              PR({"t": "idx", "v": [1], "as": "list"}, "batch"), PR(I(0), "ell", name, k=1)]
    specs = []
    for bi, batch in enumerate([[1], [4], [1, 3], [3, 1], [2, 1, 2]]):
        ops = []
        for j, pr in enumerate(probes):
            for pre in (None, "row", "unsq0"):
                for n in ([1], [2], [2, 0, 1]):
                    ops.append({"op": "repeat", "src": 0, "n": n, "trail1": j % 2 == 0, "pre": pre,
                                "only1": (j + len(n)) % 2 == 0, "probe": pr})
        pr = probes
        ops += [{"op": "join", "src": 0, "other": {"kind": "fresh", "vars": [["y", 2]], "fill": [1, 1]},
                 "side": "left", "probe": pr[0]},
                {"op": "join", "src": 0, "other": {"kind": "fresh", "vars": [["y", 1]], "fill": [1, 1]},
                 "side": "right", "probe": pr[2]},
                {"op": "joined", "src": 0, "others": [{"vars": [["y", 1]], "fill": [0, 2]}], "srcpos": 1,
                 "empties": [2], "probe": pr[3]},
                {"op": "joined", "src": 0, "others": [], "srcpos": 0, "empties": [1], "probe": pr[1]},
                {"op": "or", "src": 0, "other": {"kind": "fresh", "rows": 2, "fill": [1, 2]}, "side": "left",
                 "probe": pr[1]},
                {"op": "or", "src": 0, "other": {"kind": "self"}, "side": "left", "probe": pr[2]},
                {"op": "arith", "src": 0, "f": "add", "other": "self", "ref": 0, "fill": [2, 1], "probe": pr[0]},
                {"op": "arith", "src": 0, "f": "mul", "other": "fresh", "ref": 0, "fill": [2, 1], "probe": pr[5]},
                {"op": "unsq", "src": 0, "dim": 0, "probe": pr[0]},
                {"op": "unsq", "src": 0, "dim": 1, "probe": pr[5]},
                {"op": "get", "src": 0, "idx": {"form": "bare", "items": [{"t": "slice", "a": 0, "b": 3, "s": None}]},
                 "probe": pr[5]},
                {"op": "get", "src": 0, "idx": {"form": "ell", "items": [{"t": "idx", "v": [0, 0, 0], "as": "torch"}],
                                                "k": 1, "kp": 0, "sel": {"t": "name", "pos": 0}}, "probe": pr[0]}]
        specs.append({"dtype": "float64" if bi % 2 == 0 else "float32", "avoid_known": True,
                      "init": {"op": "new", "vars": [["x", 2], ["t", 1], ["u", 1]], "batch": batch,
                               "fill": [1, 2], "via": VIAS[bi % len(VIAS)]},
                      "ops": ops})
    return specs
